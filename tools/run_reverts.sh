#!/bin/bash
# runs every reverted-fix mutant against the checks of the properties it is recorded under
cd /verif
declare -A MAP=( [f4725de]=C09,C06 [0f7dbde]=C08 [1403992]=C10,C07,C15 [f5b67e2]=C18 [349662f]=C18 [d96b300]=C18 [fe5f3e0]=C24 [10afffb]=C23,C22 [ef26e36]=C22 [f0c574f]=C02 [d8985fd]=C05,C03 [b621d2e]=C01,C04 [d3e94af]=C15 [6481e22]=C16,C15 [e8fab12]=C13 [b12ce65]=C17 [6499fcc]=C19 [612e1d8]=C19 [677cedc]=C19 [e9e6e9e]=C19 [5a78e46]=C20,C12 [2ffab26]=C21 [6b232db]=C21 [fe0302b]=C21 [be4d68b]=C24 [bdf7e21]=C18 [b621d2e_d8985fd]=C05,C03,C04 )
for c in "$@"; do
  python3 tools/seedtest.py mutants/revert_$c --skip-confirm --checks ${MAP[$c]} > mutants/revert_$c/result.json 2>mutants/revert_$c/err.txt
  echo "$c ${MAP[$c]} caught_by=$(python3 -c "import json;print(json.load(open('mutants/revert_$c/result.json')).get('caught_by'))" 2>/dev/null)"
done
