#!/bin/bash
# tools/redetect.sh <seed names...> : re-runs only the checks (no confirmation) with the current code and
# merges the outcome into seeded/<name>/result.json, keeping the recorded confirmation
cd /verif
group() { bash -c "source <(sed -n '/^group()/,/^}/p' tools/run_seeds.sh); group $1"; }
for s in "$@"; do
  id=${s%%-*}
  tmp=$(mktemp)
  python3 tools/seedtest.py seeded/$s --skip-confirm --checks $(group $id) > $tmp 2>/dev/null
  python3 - "$s" "$tmp" <<'PY'
import json, sys, os
s, tmp = sys.argv[1], sys.argv[2]
p = '/verif/seeded/%s/result.json' % s
try: old = json.load(open(p))
except Exception: old = {}
try: new = json.load(open(tmp))
except Exception as e:
    print(s, 'redetect failed', e); sys.exit(0)
old['checks'] = new.get('checks', {}); old['caught_by'] = new.get('caught_by', []); old['seed'] = new.get('seed', old.get('seed'))
old['checks_rerun_with_final_code'] = True
json.dump(old, open(p, 'w'), indent=1)
print(s, 'caught_by', old['caught_by'])
PY
  rm -f $tmp
done
