#!/bin/bash
# tools/run_seeds.sh <seed dir names under seeded/> : confirm each and run its group of checks
cd /verif
group() {
  case $1 in
    C01) echo C01,C04,C06 ;; C02) echo C02,C05,C04 ;; C03) echo C03,C01 ;; C04) echo C04,C01 ;; C05) echo C05,C02 ;; C11) echo C11,C10,C01 ;;
    C06) echo C06,C08,C07 ;; C07) echo C07,C06,C01 ;; C08) echo C08,C06 ;; C09) echo C09,C15,C01 ;; C10) echo C10,C11,C01 ;;
    C12) echo C12,C13 ;; C13) echo C13,C12 ;; C14) echo C14 ;;
    C15) echo C15,C16,C17 ;; C16) echo C16,C15 ;; C17) echo C17,C15 ;;
    C18) echo C18,C19 ;; C19) echo C19,C18,C20 ;; C20) echo C20,C19 ;; C21) echo C21,C19 ;;
    C22) echo C22,C01,C19 ;; C23) echo C23,C22 ;;
    C24) echo C24 ;;
  esac
}
for s in "$@"; do
  id=${s%%-*}
  python3 tools/seedtest.py seeded/$s --checks $(group $id) > seeded/$s/result.json 2> seeded/$s/err.txt
  echo "$s caught_by=$(python3 -c "import json;r=json.load(open('seeded/$s/result.json'));print(r.get('caught_by'), 'suite', r.get('existing_suite_with_patch'), 'demo', r.get('demo_on_unchanged_tree'), '/', r.get('demo_with_patch'))" 2>/dev/null)"
done
