#!/bin/bash
# tools/run_seeds.sh <seed dir names under seeded/> : confirm each and run its group of checks
cd /verif
group() {
  case $1 in
    C01|C02|C03|C04|C05|C11) echo C01,C02,C03,C04,C05,C11 ;;
    C06|C07|C08|C09|C10) echo C06,C07,C08,C09,C10,C01 ;;
    C12|C13|C14) echo C12,C13,C14,C01 ;;
    C15|C16|C17) echo C15,C16,C17,C10 ;;
    C18|C19|C20|C21) echo C18,C19,C20,C21 ;;
    C22|C23) echo C22,C23 ;;
    C24) echo C24 ;;
  esac
}
for s in "$@"; do
  id=${s%%-*}
  python3 tools/seedtest.py seeded/$s --checks $(group $id) > seeded/$s/result.json 2> seeded/$s/err.txt
  echo "$s caught_by=$(python3 -c "import json;r=json.load(open('seeded/$s/result.json'));print(r.get('caught_by'), 'suite', r.get('existing_suite_with_patch'), 'demo', r.get('demo_on_unchanged_tree'), '/', r.get('demo_with_patch'))" 2>/dev/null)"
done
