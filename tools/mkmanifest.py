#!/usr/bin/env python3
"""Regenerates /verif/MANIFEST.json from the table below (kept in one place so that the
manifest is always valid and current)."""
import json, os
ROOT = os.path.dirname(os.path.dirname(os.path.abspath(__file__)))

HOOK_COMMITS = []   # filled in when the hook commit exists
try:
    HOOK_COMMITS = [l.strip() for l in open(os.path.join(ROOT, "tools", "hook_commits.txt")) if l.strip()]
except OSError:
    pass

# id -> (technique, level text, level note, design ref)
CHECKS = {
 "C06": ("differential runtime monitor: engine unify() vs independent reference unifier over a bounded-exhaustive term-pair universe x engine-produced prior sets, plus seeded random deep pairs",
         "Every ordered pair of a closed term universe is unified by the real engine under every prior substitution set (themselves produced by checked engine unifications) and compared with a reference mgu: success/failure, earlier bindings kept, resolved values equal up to renaming, both sides equal when resolved, no binding cycle. Exhaustive inside the stated universe, sampled beyond; says nothing about terms outside it.",
         "trusts the reference unifier in monitor/src/runify.rs; occurs-check and order-dependent wildcard cases are skipped and counted", "DESIGN.md 5/C06"),
 "C07": ("metamorphic runtime monitor: A.unify(B) vs B.unify(A) on the C06 pair space, as written and after recreate_variables (shared / separate VarMap)",
         "Both directions are executed on the real engine and must agree on success and on every variable's resolved value up to renaming; exhaustive over unordered pairs of the universe, sampled beyond.",
         "no reference needed for the verdict; the reference is used only to skip occurs-check cases", "DESIGN.md 5/C07"),
 "C08": ("invariant monitor: bounded cycle search over the engine's substitution set after every step of all variable-pair unification sequences up to a length bound, then replace_variables/Display must return",
         "All sequences of variable-to-variable unifications up to the bound are executed; after each successful step the binding graph is searched for a cycle and re-aliasing must not add a binding. Random mixed sequences extend reach. A hang or stack overflow of the worker is isolated and reported.",
         "monitor's own walk is bounded so it cannot hang; cases needing an occurs check are skipped", "DESIGN.md 5/C08"),
 "C09": ("invariant + metamorphic runtime monitor: `$_` against every universe term (bindings unchanged), nested `$_` pairs vs reference, and insertion of `$V = $_` steps into unification sequences",
         "Top-level `$_` must succeed and leave the substitution set entry-wise unchanged under every prior; nested occurrences are compared with the reference; inserting a `$_` unification at any point of a sequence must not change later successes or values.",
         "trusts the reference unifier for nested wildcard positions", "DESIGN.md 5/C09"),
}

PENDING = {}

def main():
    props = [json.loads(l) for l in open(os.path.join(ROOT, "properties.jsonl"))]
    checks = []
    na = []
    try:
        na_reasons = json.load(open(os.path.join(ROOT, "tools", "not_applicable.json")))
    except OSError:
        na_reasons = {}
    for p in props:
        pid = p["id"]
        if pid in CHECKS and pid not in na_reasons:
            tech, text, note, ref = CHECKS[pid]
            checks.append({
                "property_id": pid,
                "quick_cmd": "./check %s --tier quick" % pid,
                "thorough_cmd": "./check %s --tier thorough" % pid,
                "evidence_file": "evidence/%s.json" % pid,
                "replay_cmd_template": "./check %s --replay {path}" % pid,
                "engine": "suiron-monitor",
                "level_claimed": {"category": "exploration", "text": text, "design_ref": ref},
                "level_note": note,
                "technique": tech,
            })
        else:
            na.append({"property_id": pid, "reason": na_reasons.get(pid, "check not built yet in this session (work in progress; see DESIGN.md section 11)")})
    m = {
        "version": 1,
        "setup_cmd": "cd /verif/monitor && CARGO_NET_OFFLINE=true CARGO_TARGET_DIR=/verif/target cargo build --offline --bin worker",
        "hooks": {
            "guard": "cargo feature `verif-hooks` of suiron-rust (off by default)",
            "enable": "the monitor crate depends on /repo by path; hook-using checks build it with --features suiron-rust/verif-hooks",
            "baseline_off_cmd": "cd /repo && cargo test --workspace --no-fail-fast --offline",
            "source_commits": HOOK_COMMITS,
            "add_only": True,
        },
        "engines": [{"name": "suiron-monitor", "path": "monitor", "serves_properties": sorted(CHECKS.keys()),
                     "kind_free_text": "Rust crate linking the real suiron library: reference model, generators, oracles; sharded by ./check (Python supervisor with crash/hang isolation)"}],
        "checks": checks,
        "not_applicable": na,
        "notes": "All checks are runtime monitors over executions of the real library built from /repo's working tree. Exit 0 = held on everything explored, 1 = VIOLATION line(s), 2 = the check could not produce evidence (build/harness problem), never a verdict. Known findings: known_findings.json.",
    }
    with open(os.path.join(ROOT, "MANIFEST.json"), "w") as f:
        json.dump(m, f, indent=1)
    print("MANIFEST.json: %d checks, %d not claimed" % (len(checks), len(na)))

if __name__ == "__main__":
    main()
