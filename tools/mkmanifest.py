#!/usr/bin/env python3
"""Regenerates /verif/MANIFEST.json from the table below (kept in one place so that the
manifest is always valid and current)."""
import json, os
ROOT = os.path.dirname(os.path.dirname(os.path.abspath(__file__)))

HOOK_COMMITS = []   # filled in when the hook commit exists
try:
    HOOK_COMMITS = [l.strip() for l in open(os.path.join(ROOT, "tools", "hook_commits.txt")) if l.strip()]
except OSError:
    pass

# id -> (technique, level text, level note, design ref)
CHECKS = {
 "C06": ("differential runtime monitor: engine unify() vs independent reference unifier over a bounded-exhaustive term-pair universe x engine-produced prior sets, plus seeded random deep pairs; in situ on every head unification and `=` goal of real searches via the verif-hooks events",
         "Every ordered pair of a closed term universe is unified by the real engine under every prior substitution set (themselves produced by checked engine unifications) and compared with a reference mgu: success/failure, earlier bindings kept, resolved values equal up to renaming, both sides equal when resolved, no binding cycle. Exhaustive inside the stated universe, sampled beyond; says nothing about terms outside it.",
         "trusts the reference unifier in monitor/src/runify.rs; occurs-check and order-dependent wildcard cases are skipped and counted", "DESIGN.md 5/C06"),
 "C07": ("metamorphic runtime monitor: A.unify(B) vs B.unify(A) on the C06 pair space, as written and after recreate_variables (shared / separate VarMap); in situ by replaying every head unification of real searches with the sides swapped",
         "Both directions are executed on the real engine and must agree on success and on every variable's resolved value up to renaming; exhaustive over unordered pairs of the universe, sampled beyond.",
         "no reference needed for the verdict; the reference is used only to skip occurs-check cases", "DESIGN.md 5/C07"),
 "C08": ("invariant monitor: bounded cycle search over the engine's substitution set after every step of all variable-pair unification sequences up to a length bound, then replace_variables/Display must return; in situ after every successful unification of real searches",
         "All sequences of variable-to-variable unifications up to the bound are executed; after each successful step the binding graph is searched for a cycle and re-aliasing must not add a binding. Random mixed sequences extend reach. A hang or stack overflow of the worker is isolated and reported.",
         "monitor's own walk is bounded so it cannot hang; cases needing an occurs check are skipped", "DESIGN.md 5/C08"),
 "C09": ("invariant + metamorphic runtime monitor: `$_` against every universe term (bindings unchanged), nested `$_` pairs vs reference, and insertion of `$V = $_` steps into unification sequences; in situ on every unification event with a `$_` side; at program level the answers of programs made rich in `$_` (every singleton variable written as `$_`) vs the reference",
         "Top-level `$_` must succeed and leave the substitution set entry-wise unchanged under every prior; nested occurrences are compared with the reference; inserting a `$_` unification at any point of a sequence must not change later successes or values.",
         "trusts the reference unifier for nested wildcard positions", "DESIGN.md 5/C09"),
 "C01": ("history + reference-model runtime monitor: answer sequence of next_solution()/solve_all() vs an independent depth-first SLD interpreter, over a complete enumeration of small program shapes plus seeded random stratified programs",
         "The real engine is driven through its public search API on every program of a bounded shape space and on random programs with list patterns, aliasing, nested and/or, recursion, arithmetic, comparisons and list built-ins; the oracle compares number, order, multiplicity and value (up to renaming of unbound variables) of the answers with a reference interpreter written from the statement, and solve_all's strings with an independent formatter. Held on the executions observed; programs outside the generators' bounds are not covered.",
         "trusts the reference interpreter in monitor/src/rinterp.rs; cases the statements leave open (occurs check, arithmetic on non-numbers, ...) are discarded before the engine runs and counted", "DESIGN.md 5/C01"),
 "C02": ("history + reference-model runtime monitor: answers of programs with `!` at every body position vs a reference interpreter implementing the documented cut",
         "Every small program shape with a cut at every position of conjunctions and disjunction arms (followed by succeeding and failing goals, with and without later clauses, called from conjunctions that backtrack into the cutting predicate) and random larger programs are executed; answers must equal the reference with the documented cut. The reference counts how often a cut ran with pending clauses / choice points / was followed by failure, and the check reports those counts.",
         "trusts the reference interpreter's reading of the documented cut; cut inside not(...) is not generated", "DESIGN.md 5/C02"),
 "C03": ("history + reference-model runtime monitor: answers of programs containing not(G) vs reference negation as failure (complete not-focused family + random programs), plus a direct probe of not(G) solution nodes built with make_solution_node (outcome, bindings unchanged, no second success)",
         "Programs whose bodies contain not(G) for G a call, conjunction, disjunction, unification or comparison, with the variables of G bound or unbound at the call and G having 0, 1 or many answers, are executed; the answer sequences (which expose any leaked binding of G and any second success of not) must equal the reference.",
         "trusts the reference interpreter", "DESIGN.md 5/C03"),
 "C04": ("history + reference-model runtime monitor over captured stdout: bytes written between consecutive next_solution() returns vs the reference's output events",
         "fd 1 of the worker is redirected to a file; after every API call the new bytes are read, so the observed history is `output, answer, output, answer, ...`. It must equal, segment by segment, what the reference search writes for print / print_list / nl placed before, between and after backtracking goals, in disjunction arms, inside not and after cut.",
         "formatting corners the statement leaves open (non-ground arguments, marker/argument count mismatch, floats without fraction) are out of domain", "DESIGN.md 5/C04"),
 "C05": ("invariant monitor over call histories: after the first None / `No more.`, further requests on the same query through next_solution(), solve() and solve_all() must report no answer and write zero bytes; likewise after solve_all() has listed everything",
         "Every query of the C01-C04 corpora (not, cut, print, nested and/or) is driven to exhaustion and then asked again 3 (quick) / 5 (thorough) times through next_solution() and twice through solve(); stdout is captured around every request.",
         "needs no reference model; queries that reach the answer cap before exhaustion are skipped and counted", "DESIGN.md 5/C05"),
 "C10": ("invariant runtime monitor: skeleton equality, id consistency and freshness of every renaming, at the API (recreate_variables on terms / goals / rules, get_rule, make_query, parse_query) and in situ on every clause renaming of real searches via the verif-hooks Rename event",
         "Every enumerated term and list shape, thousands of generated rules and every clause of generated programs is renamed; with ids erased the result must be identical to the input down to every list node's count, tail flag and the empty-list terminator; same name <=> same id, no id 0, ids inside the counter window, separate renamings and the query pairwise disjoint. In situ, the ids of each freshly renamed clause must not occur in the goal being resolved, nor be bound in, nor occur inside a value of, the substitution set of that point of the search.",
         "ids re-used after a failed head unification occur nowhere and are not flagged", "DESIGN.md 5/C10"),
 "C11": ("metamorphic runtime monitor: the engine against itself on alpha-renamed programs (random names, the query's names, identical names in every clause, names that are prefixes of each other)",
         "Each program of the corpus is executed as generated and under 4 (quick) / 8 (thorough) consistent renamings of its clause variables; answers (canonicalised) and captured output must be identical.",
         "no reference model involved in the verdict", "DESIGN.md 5/C11"),
 "C12": ("differential runtime monitor: add/subtract/multiply/divide evaluated by the engine vs a checked-i64 / f64 left fold, over a complete grid of argument lists x operations x presentations",
         "Every argument list of length 1-2 (and a sub-grid of length 3) over 19 boundary numbers x 4 operations is evaluated through 5 presentations (constructor, through bound variable chains, function on the left, source text named, source text infix) and the result bound to the output variable is compared in type and value with the fold the statement defines; random lists extend the grid.",
         "integer overflow and integer division by zero are out of domain as the statement says", "DESIGN.md 5/C12"),
 "C13": ("differential runtime monitor: unify(F, T) and unify(T, F) for function terms F vs value-then-unify by the reference, over all function x operand-class x side combinations",
         "9 function terms x 19 operand classes x both sides of `=`, plus random pairs, run as one-clause programs; the outcome must equal unifying the function's value with the other operand.",
         "trusts the reference evaluation of the functions (C12/C17 check it separately)", "DESIGN.md 5/C13"),
 "C14": ("differential runtime monitor: the five comparison predicates vs numeric / byte-wise string order over a complete operand grid, with a witness variable exposing success count and bindings",
         "All ordered pairs of 29 operands (boundary ints, floats incl. -0.0, NaN and infinities produced at run time, atoms incl. unicode, unbound variable, list, complex term, `$_`) x 5 predicates x 6 presentations (named, variable chains, source text named and infix) plus random pairs; the clause binds a witness after the comparison so success, at-most-once and absence of bindings show in the answers.",
         "trusts the reference comparison in monitor/src/rinterp.rs", "DESIGN.md 5/C14"),
 "C15": ("invariant + differential runtime monitor: node-by-node well-formedness and element sequence of every list built by make_linked_list, slist!, parse_linked_list, recreate_variables, append, include, exclude",
         "Every element sequence up to length 3 (4 in thorough) over a 14-term alphabet with list-valued, empty-list, variable and `$_` elements is pushed through each producer; every node must satisfy term != Nil, count = 1 + next.count, tail flag only on the last node, terminator exactly the empty node; the element sequence must be the one the statement prescribes; the built list must unify with an independently built one without bindings.",
         "the layout rules are those of the documented parser output", "DESIGN.md 5/C15"),
 "C16": ("differential runtime monitor: append vs the concatenation defined in the statement, over all pairs (and a grid of triples) of an element alphabet in five argument arrangements",
         "append is run with atoms, numbers, complex terms, bound variables, flat / nested / empty lists and lists whose tail variable is bound (once or twice), with Out unbound, bound to the right list and bound to a wrong list; answers must equal the reference, at most one answer.",
         "append with an unbound or wildcard input is out of domain", "DESIGN.md 5/C16"),
 "C17": ("differential runtime monitor: count, include/exclude, functor and join vs per-statement reference implementations, enumerated argument grids plus random cases",
         "count over element pairs incl. bound tails; include/exclude over element pairs x 6 filter patterns with the filter variable reported (so a leaked binding shows); functor over arities 0-4 x names x exact / prefix* / variable patterns in 4 forms; join over word / punctuation triples and lists with bound variables.",
         "cases the statement leaves open (open lists, non-list arguments, join starting with punctuation) are out of domain", "DESIGN.md 5/C17"),
 "C18": ("robustness monitor: every input string (exhaustive short strings, deeply nested texts, canonical and mutated texts, random strings, and 8 inputs of 10-400 kB parsed on a thread with the default 8 MB stack) is handed to all 10 parser entry points under catch_unwind with a panic hook; worker death or lack of progress is isolated by the supervisor and re-run three times; two recorded stack-overflow findings are reported as KNOWN-FINDING",
         "All strings up to length 3 over the 12-character syntax alphabet, canonical texts, 1-4-edit mutations of them and random strings up to 160 characters; a panic is a violation keyed by (entry point, source file, panic kind); an abort, stack overflow or hang is reproduced in isolation before it is reported.",
         "\"bounded time\" is decided as: returns within the per-case watchdog on inputs <= 160 characters", "DESIGN.md 5/C18"),
 "C19": ("differential + round-trip runtime monitor: parse -> Display vs an independent canonical printer, then parse(Display) == value, over enumerated grammar derivations and random texts",
         "All terms up to 3-4 nodes, all simple goals incl. every built-in and infix form, all bodies of <= 3 goals in and/or arrangements, facts / rules / queries of arity 0-3, plus random larger texts: the parser must accept, the printed form must equal the independently computed canonical text, re-parsing must give an equal value and printing must be idempotent.",
         "trusts the independent printer in monitor/src/rt.rs; parenthesised groups, time(...), quoted atoms are outside the canonical grammar", "DESIGN.md 5/C19"),
 "C20": ("metamorphic runtime monitor: the same term text parsed in 12 syntactic contexts must give equal terms or be rejected in all",
         "Enumerated canonical terms plus signed numbers, numeric look-alikes and punctuation atoms, and random tokens, each parsed alone, as 1st/2nd complex argument, built-in argument, list element (two parsers), either side of `=`, left of `==`, either operand of an arithmetic infix and as query argument.",
         "contexts whose surrounding syntax cannot hold the text are not generated", "DESIGN.md 5/C20"),
 "C21": ("differential runtime monitor: load_kb_from_file on random legal renderings vs parse_rule per rule + add_rules",
         "Generated programs are written to files with random line breaks after `:-` `,` `;` `=` (also inside argument lists), indentation, blank lines and `#` `%` `//` comments outside parentheses and brackets; the file must load and format_kb plus the Debug form of every predicate's rules must equal the rule-by-rule knowledge base.",
         "only rules that parse_rule accepts are used (acceptance itself is C19's subject)", "DESIGN.md 5/C21"),
 "C22": ("metamorphic runtime monitor over process histories: each step of a multi-query history vs the same (query, driver) run as the first action of a fresh process",
         "One process per history: all ordered pairs over a 26-step alphabet (21 queries incl. not / cut / print with constant and variable-held formats / list built-ins / arithmetic / recursion, three whose search exceeds the 1 s limit and one that searches for seconds without a timer and answers only at the very end; drivers next_solution to exhaustion, abandon after k answers, re-ask after exhaustion, solve x n, solve_all), all triples over a sub-alphabet and random longer histories; answers and captured output of every step must equal its fresh-process baseline.",
         "slow searches are sized once per run on the idle machine; a query abandoned midway is never resumed after a later query was built", "DESIGN.md 5/C22"),
 "C23": ("history + reference-model monitor with a monotonic clock: solve/solve_all strings vs the true answer sequence under the real timer thread",
         "Fast generated queries must be complete and never report a timeout; slow searches sized at run time to exceed the limit many times over (answers first then a long silent search; not(...) over a search that succeeds only at its very end) must return a prefix of the true sequence, then the timeout message as last element, never before 1000 ms have elapsed; a fast query prepared before another query timed out must afterwards be answered truthfully, without a timeout report.",
         "only timing directions that are sound on a loaded machine are verdicts; a fast query that really took >= 1000 ms is inconclusive", "DESIGN.md 5/C23"),
 "C24": ("undefined-behaviour interpreter + sanitizer: the FFI-free API driver is run under Miri (Stacked Borrows; thorough adds Tree Borrows and scheduler-seed variation on the timer cases) and, in thorough, natively under AddressSanitizer",
         "Generated programs with a cut at every body position, not, nested and/or, re-asking after exhaustion, parsing of valid and mutated text, several queries per process, solve/solve_all under the real timer thread and a 1 ms timer firing during and after searches are interpreted by Miri in 16 (quick) / 160 (thorough) separate processes so that one report cannot mask another; any `Undefined Behavior` diagnostic (aliasing violation, data race, out-of-bounds, use-after-free) is a violation keyed by kind and first frame in /repo/src. The evidence lists API calls interpreted, cuts executed, timer firings observed and every process's exit status.",
         "Miri observes only the executions it interprets (hundreds of programs per run); leaks are ignored (the solution tree's Rc cycles leak by design)", "DESIGN.md 5/C24"),
}

PENDING = {}

def main():
    props = [json.loads(l) for l in open(os.path.join(ROOT, "properties.jsonl"))]
    checks = []
    na = []
    try:
        na_reasons = json.load(open(os.path.join(ROOT, "tools", "not_applicable.json")))
    except OSError:
        na_reasons = {}
    for p in props:
        pid = p["id"]
        if pid in CHECKS and pid not in na_reasons:
            tech, text, note, ref = CHECKS[pid]
            checks.append({
                "property_id": pid,
                "quick_cmd": "./check %s --tier quick" % pid,
                "thorough_cmd": "./check %s --tier thorough" % pid,
                "evidence_file": "evidence/%s.json" % pid,
                "replay_cmd_template": "./check %s --replay {path}" % pid,
                "engine": "suiron-monitor",
                "level_claimed": {"category": "exploration", "text": text, "design_ref": ref},
                "level_note": note,
                "technique": tech,
            })
        else:
            na.append({"property_id": pid, "reason": na_reasons.get(pid, "check not built yet in this session (work in progress; see DESIGN.md section 11)")})
    m = {
        "version": 1,
        "setup_cmd": "cd /verif/monitor && CARGO_NET_OFFLINE=true CARGO_TARGET_DIR=/verif/target cargo build --offline --bin worker",
        "hooks": {
            "guard": "cargo feature `verif-hooks` of suiron-rust (off by default)",
            "enable": "the monitor crate depends on /repo by path; hook-using checks build it with --features suiron-rust/verif-hooks",
            "baseline_off_cmd": "cd /repo && cargo test --workspace --no-fail-fast --offline",
            "source_commits": HOOK_COMMITS,
            "add_only": True,
        },
        "engines": [{"name": "suiron-monitor", "path": "monitor", "serves_properties": sorted(CHECKS.keys()),
                     "kind_free_text": "Rust crate linking the real suiron library: reference model, generators, oracles; sharded by ./check (Python supervisor with crash/hang isolation)"}],
        "checks": checks,
        "not_applicable": na,
        "notes": "All checks are runtime monitors over executions of the real library built from /repo's working tree. Exit 0 = held on everything explored, 1 = VIOLATION line(s), 2 = the check could not produce evidence (build/harness problem), never a verdict. Known findings and repaired defects: known_findings.json (two open C18 findings are printed as KNOWN-FINDING lines). Seeded changes used to test the checks: seeded/<id>-A..D (patch.diff, demo.rs, notes.md, meta.json); re-introduced repaired defects: mutants/revert_<commit>. DESIGN.md sections 12-16 describe what was built, every report on the unchanged tree and its classification, and which checks catch which changes.",
    }
    with open(os.path.join(ROOT, "MANIFEST.json"), "w") as f:
        json.dump(m, f, indent=1)
    print("MANIFEST.json: %d checks, %d not claimed" % (len(checks), len(na)))

if __name__ == "__main__":
    main()
