#!/bin/sh
# Runs the repository's pinned suite the way the baseline does (nextest: one process per
# test, guard off) and prints a one-line summary; exit 1 unless all 100 pass.
cd /repo && CARGO_NET_OFFLINE=true cargo nextest run --workspace --no-fail-fast --offline --test-threads 8 2>&1 | awk '/^ +(FAIL|SIGABRT|TIMEOUT)/{print} /Summary/{print; if ($0 !~ /100 passed/ || $0 ~ /failed/) bad=1; seen=1} END {if (!seen || bad) exit 1}'
