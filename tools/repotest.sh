#!/bin/sh
# Runs the repository's pinned suite (unit + integration tests, guard off) and prints a summary.
cd /repo && CARGO_NET_OFFLINE=true cargo test --offline --lib --tests --no-fail-fast 2>&1 | awk '/^test result/{p+=$4; f+=$6} /FAILED|^error/{print} END {print p" passed "f" failed"; if (f>0 || p<100) exit 1}'
