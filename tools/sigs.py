#!/usr/bin/env python3
import json,glob,collections,sys
p=sys.argv[1]; tier=sys.argv[2] if len(sys.argv)>2 else 'quick'
sigs=collections.defaultdict(list)
for f in glob.glob(f'/verif/work/{p}/{tier}/*.jsonl'):
    if '/only' in f: continue
    for l in open(f, errors='replace'):
        try: d=json.loads(l)
        except: continue
        if d.get('t')=='violation': sigs[d['sig'] if p=='C18' else d['sig'].split('|')[0]].append(d)
for s,v in sorted(sigs.items(), key=lambda x:-len(x[1])):
    print(len(v), s[:150])
    for d in v[:int(sys.argv[3]) if len(sys.argv)>3 else 3]: print('      ', json.dumps(d['witness'])[:int(sys.argv[4]) if len(sys.argv)>4 else 400])
