import json,glob,collections,sys
P=sys.argv[1]
k=collections.defaultdict(list)
for f in glob.glob(f'/verif/work/{P}/quick/*.jsonl'):
    for l in open(f):
        d=json.loads(l)
        if d.get('t')!='violation': continue
        w=d['witness']; k[(w['kind'],w.get('level',''))].append(w)
for key,v in sorted(k.items(), key=lambda x:-len(x[1])):
    print(len(v),key)
    v.sort(key=lambda w:len(w.get('source',w.get('text',''))))
    seen=set()
    for w in v:
        s=w.get('source',w.get('text',''))
        if s in seen: continue
        seen.add(s)
        if P=='C19': print('     ',repr(s),'| canon',repr(w['canonical']),'|',w['detail'][:200])
        else: print('     ',json.dumps(w)[:400])
        if len(seen)>=int(sys.argv[2]) : break
