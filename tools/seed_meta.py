#!/usr/bin/env python3
"""Writes seeded/<id>/meta.json from the table below + the seed's result.json, and prints the
markdown catch table for DESIGN.md section 14."""
import json, os, glob
ROOT = os.path.dirname(os.path.dirname(os.path.abspath(__file__)))
DESC = {
 "C01-A": ("C01", "clause pre-filter: a clause is skipped when a ground head argument differs (`!=`) from the goal's argument as returned by get_ground_term()", "a clause head with a ground compound or list argument and a goal argument that is a compound or list still containing a variable"),
 "C01-B": ("C01", "list unification no longer has the case `both lists end in a tail variable`", "two open lists with equally long prefixes are unified and the tail's value reaches an answer or count()"),
 "C09-A": ("C09", "compound-term unification starts from an empty result set (same mechanism as C06-A, found independently)", "every argument pair of two compound terms has `$_` on one side, under a non-empty substitution set"),
 "C09-B": ("C09", "a rule pre-filter compares variable-free arguments with `!=` and treats a nested `$_` as a constant", "`$_` at depth >= 1 inside an argument of a head or goal that contains no logic variable, resolved against knowledge-base rules"),
 "C10-A": ("C10", "the ids of a matched fact are handed back when the substitution set did not grow", "a fact whose variables occur only nested in its head, called with an unbound argument, followed by another clause with variables in the same proof"),
 "C10-B": ("C10", "recreate_variables() returns `ground` complex terms unchanged; the groundness test treats function terms as ground", "a complex term or list whose only variables sit inside a function term (add, join, ...)"),
 "C11-A": ("C11", "facts are renamed through a scratch map that is created once per clause loop and never emptied", "two non-ground facts of one predicate, the earlier rejected at the head, the later sharing a variable name with it"),
 "C11-B": ("C11", "add_rules() drops a rule that is `already defined`, compared including variable names", "the same rule twice up to renaming in one predicate"),
 "C12-A": ("C12", "single-pass evaluation that switches to floating point only when the first float argument is reached", "three or more arguments, at least two leading integers whose integer result differs from the float result, then a float"),
 "C12-B": ("C12", "fast path for two integer arguments; divide uses Euclidean instead of truncating division", "integer division with a negative dividend and an inexact quotient"),
 "C13-A": ("C13", "the redirect that evaluates a function on the right of `=` is limited to numbers and variables on the left", "`atom = join(...)` with the literal atom on the left equal to the join's value"),
 "C13-B": ("C13", "function-vs-function shortcut evaluates the other function's arguments with this function's operation", "both operands are functions with different names"),
 "C14-A": ("C14", "the five predicates share one helper that orders floats with total_cmp", "a negative-zero float against 0.0 / 0, or a NaN operand"),
 "C14-B": ("C14", "`identical operands` shortcut before the operands are resolved", "the same unbound variable, or the same list / complex term, on both sides of a comparison"),
 "C15-A": ("C15", "filter() returns its input list when the number of kept terms equals the recorded count", "an input list with a bound tail variable from which the filter removes exactly (length of the tail's list - 1) terms"),
 "C15-B": ("C15", "append() splices its last input list with the splicing constructor", "every earlier input contributes no term (`append([], [b, c], $X)`), or the last input list has a bound tail"),
 "C16-A": ("C16", "append() follows only the first bound tail variable of a list argument", "a list argument whose tail variable is bound to a list that itself ends in a bound tail variable"),
 "C16-B": ("C16", "append() compares lengths before unifying Out", "Out already bound to an open list `[$H | $T]` whose prefix length differs from the result length"),
 "C17-A": ("C17", "count() adds the stored node count of the list a bound tail variable points to instead of walking on", "a tail variable bound to a list that itself ends in a bound tail variable whose list does not have exactly one element"),
 "C17-B": ("C17", "join() rewritten as words.join(\" \") followed by replacing ` ,` ` .` ` ?` ` !`", "a term longer than one character that starts with a punctuation mark, or a term containing a space followed by one"),
 "C18-A": ("C18", "parse_complex() slices the source string with character offsets used as byte offsets", "a multi-byte character before the closing parenthesis of a complex term: panic (not a char boundary) or a silently different term"),
 "C18-B": ("C18", "shared helper for the sign of a number reads the next character without an end-of-input guard", "a term that is exactly `+` or `-` and ends the scanned text: index out of bounds"),
 "C19-A": ("C19", "parse_linked_list() builds the list with the splicing constructor", "a list literal of two or more elements whose last element is itself a list"),
 "C19-B": ("C19", "Display rounds floats to 15 significant digits", "a float whose shortest round-trip text has 16-17 significant digits"),
 "C20-A": ("C20", "parse_arguments() no longer resets its `has a period` flag between arguments", "an integer argument after an argument that contains a period (a float, `St. John`)"),
 "C20-B": ("C20", "parse_linked_list() builds the list with the splicing constructor (same mechanism as C19-A, found independently)", "a list written as the last of two or more list elements"),
 "C21-A": ("C21", "fast path: when every stripped line is a complete rule, the lines are taken as the rules", "no rule of the file continues on a second line and at least one line holds two rules"),
 "C21-B": ("C21", "load_kb_from_file() parses into a local knowledge base and merges it with HashMap::extend", "a file loaded into a knowledge base that already has rules of one of the file's predicates"),
 "C22-A": ("C22", "make_query() no longer clears the stop flag; only the base node is counted without it", "an earlier query timed out, the later query is driven by next_solution() and needs a rule body"),
 "C22-B": ("C22", "solve() returns `No more.` before cancelling its timer; the leaked timer raises the stop flag a second later", "a search driven by next_solution() that is still running about 1 s after an earlier solve() reported `No more.`"),
 "C23-A": ("C23", "start_query_timer() no longer clears the stop flag", "solve()/solve_all() on a solution node whose query was built before another query timed out"),
 "C23-B": ("C23", "an answer is formatted and reported before the stop flag is tested", "a real timeout while the search is inside not(...) around the long search (the forced failure turns into a success)"),
 "C24-A": ("C24", "the Or node keeps a `&mut` to itself across the call into its head goal, while the cut writes to that node through a raw pointer", "a cut executed inside an alternative of a disjunction, followed by failure (Miri: aliasing violation)"),
 "C24-B": ("C24", "the timer number becomes a plain `static mut`", "a timer that really expires, then cancel_timer() or the next start_query_timer() (Miri: data race)"),
 "C01-C": ("C01", "(round 2) the ids of a matched fact are handed back when the substitution set did not grow (same mechanism as C10-A, found independently)", "a fact with a variable only nested inside an argument, called with an unbound argument, followed by another clause fetch in the same derivation"),
 "C01-D": ("C01", "(round 2) the And node skips the remaining goals when the head goal succeeds again with the identical substitution set - also when the tail had produced answers", "a non-last goal of a conjunction that succeeds at least twice without binding anything, and a rest of the conjunction that has solutions: answer multiplicity is lost"),
 "C04-C": ("C04", "(round 2) ground goals that failed are remembered for the rest of the query and fail at once when met again", "a call with constant arguments only that fails after writing something, executed again in the same query"),
 "C04-D": ("C04", "(round 2) print fills the `%s` markers one after the other in the growing text and strips left-over markers", "an argument placed into a marker whose own text contains `%s`"),
 "C05-C": ("C05", "(round 2) the body of the last rule is returned directly and kept when it failed; not(G) clears its one-shot flag only when it succeeds", "the last clause of the queried predicate fails in a not(G) whose G had exactly one answer, and the query is asked again after None (each edit alone is harmless)"),
 "C05-D": ("C05", "(round 2) next_solution() returns None at once while the stop flag is set", "a node asked with next_solution() while the flag is still set (stop_query(), or an earlier timed-out query), then asked again after the flag was cleared"),
 "C06-C": ("C06", "(round 2) two variables that are both bound are compared with `==` on their `ground terms`", "two bound variables whose values are different compound terms that still contain variables and have a unifier"),
 "C06-D": ("C06", "(round 2) a tail variable is bound directly; whether it is free is tested on the substitution set the call started with", "a list whose tail variable also occurs in (or is aliased to) an earlier element of the same list: false success, earlier binding overwritten"),
 "C11-C": ("C11", "(round 2) renaming strips a trailing `_<digits>` from variable names before the lookup", "a clause with two variables whose names are equal up to a trailing `_<digits>` (`$C_1`, `$C_2`, `$C`)"),
 "C11-D": ("C11", "(round 2) answer extraction stops at a variable bound to another variable of the same *name*", "a query variable unified with an unbound variable of the same name from another rule instance before the value arrives"),
 "C19-C": ("C19", "(round 2) infix goals are split on the string with a character index used as a byte offset", "non-ASCII characters to the left of a comparison or unification infix"),
 "C19-D": ("C19", "(round 2) parse_term() skips the arithmetic-infix scan for text that ends in a parenthesis or bracket", "an arithmetic infix whose right operand is a complex term or a function in named form"),
 "C21-C": ("C21", "(round 2) comment stripping uses a character index as a byte offset", "a line with a non-ASCII atom before a trailing comment: rules lost, glued, rejected, or a panic"),
 "C21-D": ("C21", "(round 2) the reader caches file contents by name and modification time in whole seconds", "the same path rewritten and loaded again within the same second"),
 "C22-C": ("C22", "(round 2) get_rule() caches per knowledge-base *address* whether a clause is a ground fact", "two different knowledge bases at the same address one after the other, same predicate, clause i ground in the first and with a variable in the second"),
 "C22-D": ("C22", "(round 2) parse_query() caches parsed terms under the text with all whitespace removed", "two queries whose texts differ only by a blank inside an atom (`Mary Ann` / `MaryAnn`)"),
 "C02-C": ("C02", "(round 2) the cut no longer flags the goals to its left; the And node tests its own flag on one of its two paths only", "a body `left, (alt1 ; alt2, !), right`, first answer through alt1, the call asked again, alt2 cuts, right fails, left has another solution"),
 "C02-D": ("C02", "(round 2) the Or node reads `was the head goal cut` from the head node instead of its own node", "a disjunction whose non-last alternative is a call to a predicate that cuts; the cut leaks into the caller's disjunction"),
 "C03-C": ("C03", "(round 2) not(G) over an ordering comparison is replaced by the opposite comparison", "operands that are not comparable (unbound, atom against number, list): G has no answer and neither has its opposite"),
 "C03-D": ("C03", "(round 2) a `recursion through negation` guard keyed by predicate name makes a nested not of the same predicate fail", "terminating recursion through negation with different arguments (`win($X) :- move($X, $Y), not(win($Y)).`)"),
 "C10-C": ("C10", "(round 2) variables that already carry a non-zero id are not renamed", "a clause with non-zero ids (e.g. obtained from get_rule()) stored in a knowledge base and renamed again"),
 "C10-D": ("C10", "(round 2) get_rule() memoises renamed clauses by the address of the stored rule and the counter value", "the slot of a stored clause is re-used (rule removed or replaced, a dropped knowledge base's buffer re-allocated) and fetched again at the same counter value"),
 "C15-C": ("C15", "(round 2) append() replaces a bound variable *inside* an input list by its value and flattens it", "an element of a list argument that is a variable bound to a list (spliced) or to [] (vanishes)"),
 "C15-D": ("C15", "(round 2) make_linked_list() rewritten around pop(): a single term that is a list is spliced", "the constructor or slist! called with exactly one term, which is a list - NOT CLAIMED: the statement describes the trailing list of a longer sequence (`[a | [b, c]]`) and leaves the one-term case open, so the check deliberately does not decide it"),
 "C17-C": ("C17", "(round 2) include/exclude reject an element quickly when it `is not a complex term`", "a complex filter term and a list element that is an unbound variable or `$_`"),
 "C17-D": ("C17", "(round 2) functor() no longer dereferences its second and third arguments", "a `prefix*` pattern that reaches functor() through a bound variable"),
 "C18-C": ("C18", "(round 2) group_and_tokens() keeps a group with exactly one child as it is", "a conjunction or disjunction in directly doubled parentheses `((a, b))`: panic in token_tree_to_goal()"),
 "C18-D": ("C18", "(round 2) parse_linked_list() accepts a written-out list after the bar", "an element, a bar, and a tail text that starts with `[`, ends with `]` and has a top-level arithmetic infix: panic in link_front()"),
 "C20-C": ("C20", "(round 2) parse_arguments() accepts a sign directly before a decimal point, parse_term() does not", "`-.5` written once as an argument and once alone / as a list element / as an infix operand"),
 "C20-D": ("C20", "(round 2) the arguments of a prefix-form goal are cut out of the string with character indices used as byte offsets", "a multi-byte character before the closing parenthesis of a goal or built-in call"),
 "C23-C": ("C23", "(round 2) the timer number is replaced by one global `armed` flag", "an old timer still running (dropped without cancel) that expires while a later solve()/solve_all() is in progress"),
 "C23-D": ("C23", "(round 2) solve()/solve_all() format answers themselves with an incomplete `has variables` test", "an answer holding a list whose items are complex terms or nested lists that contain rule variables"),
 "C07-C": ("C07", "(round 2) an integer unifies with the equal-valued float, but not the reverse", "an integer as receiver facing a float of exactly equal value"),
 "C07-D": ("C07", "(round 2) solver fast path: a ground head and a ground goal are compared with `==` after replace_variables() instead of unified", "a ground fact holding a literal list, called with a list pattern whose tail variable is already bound"),
 "C08-C": ("C08", "(round 2) the left variable's bindings are followed in a loop, the alias walk still compares with the original variable", "two bound variables that are already aliased through a common end variable (a diamond): `$A = $E, $B = $E, $A = $B`"),
 "C08-D": ("C08", "(round 2) a fact's variable ids are given back when the substitution set did not grow (same mechanism as C10-A / C01-C, found independently)", "a fact variable that occurs only inside a compound head argument, matched against an unbound variable, then another clause fetched: a cycle through the structure"),
 "C09-C": ("C09", "(round 2) list unification skips `$_` nodes before it looks at the tail-variable flags", "a `$_` element sitting exactly where the other list has its tail variable, or an anonymous tail facing a remainder whose length is not 1"),
 "C09-D": ("C09", "(round 2) make_linked_list() honours the vertical bar only before a LogicVar", "an anonymous tail built through the constructor (`slist!(true, a, anon!())`) unified with a remainder that does not have exactly one element"),
 "C12-C": ("C12", "(round 2) integer divide divides once by the product of the divisors", "three or more integer arguments whose divisors' product overflows although no step of the documented fold does"),
 "C12-D": ("C12", "(round 2) operands are collected in a thread-local scratch buffer that is cleared after the operation", "an evaluation that panics after at least one numeric argument (the panic caught), followed by another evaluation on the same thread: stale operands"),
 "C13-C": ("C13", "(round 2) the function's value is bound by walking the other variable's alias chain with a misplaced bounds guard", "`$X = $Y` (with `$Y` the newer variable, nothing newer bound since), then `$X = add(1, 2)`: `$Y` stays unbound"),
 "C13-D": ("C13", "(round 2) complex-term unification binds an unbound left argument directly, bypassing the function check", "a function term as an argument of a complex term on the right, an unbound variable in the same position on the left"),
 "C14-C": ("C14", "(round 2) `exact` integer/float comparison that truncates the float toward zero", "an integer n against a float f with n-1 < f < n <= 0 (-2 and -2.5)"),
 "C14-D": ("C14", "(round 2) `==` with a float rounding tolerance of a few ulp", "two different floats within 4 ulp (0.3 and 0.1 + 0.2)"),
 "C16-C": ("C16", "(round 2) append() builds its result with the splicing constructor", "the last element of the concatenation is a nested list literal"),
 "C16-D": ("C16", "(round 2) append() classifies its arguments with the typed accessors and skips what they do not cover", "a `$_` (or function term) given directly as an argument of append"),
 "C24-C": ("C24", "(round 2) count_rules()/get_rule() remember the last lookup as a raw pointer, invalidated only for the same knowledge-base address", "a knowledge base dropped and another one filled elsewhere ending up at the same address, first lookup the same predicate: use-after-free"),
 "C24-D": ("C24", "(round 2) the cut walks up the proof tree with cloned Rcs and writes every ancestor's head node unconditionally", "any cut executed inside a conjunction (the agent notes that this trigger is broad): write behind the live `&mut self`"),
 "C02-A": ("C02", "rule-body re-entry rewritten with Option::take(); the cut test after a failed re-entry is dropped", "a cut in a non-first alternative of a disjunction, the call re-entered after its first answer, the goals after the cut fail, and a later clause matches"),
 "C02-B": ("C02", "every node kind tests its own cut flag; the Or node does so only after delegating to its tail node", "a parenthesised disjunction left of a cut whose later alternative supplied the answer and has more, and the goals after the cut fail"),
 "C03-A": ("C03", "not(G) decides ground goals on fact-only predicates by structural equality instead of unification", "G ground at the call, predicate without rule bodies, and the only fact answering G is non-ground (`$_` or a repeated variable)"),
 "C03-B": ("C03", "not(G) caches answers keyed by the printed ground goal; the cache is cleared only when a query is built", "the same query object searched again after the knowledge base changed, or 1 and 1.0 (which print alike) reaching the same not() goal in one search"),
 "C04-A": ("C04", "the And node does not rebuild its tail when the head succeeds again with the identical substitution set", "a head goal that succeeds several times without binding anything, followed by goals that print and then fail"),
 "C04-B": ("C04", "print caches the split format string, keyed by the unresolved first argument", "the format held in a variable that is rebound to another `%s` format by backtracking or by a later query"),
 "C05-A": ("C05", "cut handling rewritten so that goals after a cut keep their alternatives; the clause loop forgets a failed body", "a clause that cuts and then fails, a later matching clause, and the query asked again after it reported None"),
 "C05-B": ("C05", "solve_all() searches from a fresh base node of its own", "solve_all() mixed with another request on the same solution node (before or after exhaustion)"),
 "C06-A": ("C06", "compound-term unification compares functors directly and starts from an empty result set", "two compound terms whose every argument pair has `$_` on one side, under a non-empty substitution set: earlier bindings are lost"),
 "C06-B": ("C06", "a free variable with a higher id is bound to the other variable before the alias guard runs", "three variables unified pairwise in a particular id order (a redundant triangle): binding cycle"),
 "C07-A": ("C07", "list length pre-check forgets that the tail variable is counted", "`[$H | $T] = [a]`: the tail variable would have to become [] and the list with the tail is on the left / in the head"),
 "C07-B": ("C07", "two-pass argument unification skips constant-vs-structure pairs in both passes", "a constant on the left facing a literal list or complex term on the right at the same argument position"),
 "C08-A": ("C08", "alias check before binding a variable looks at the direct binding only", "three variables aliased in a chain, then the chain end unified with a variable two hops away"),
 "C08-B": ("C08", "bindings of complex-term arguments are collected and written in one batch without re-checking aliases", "`f($X, $Y) = f($Y, $X)` with both variables unbound"),
}
rows = []
for d in sorted(glob.glob(os.path.join(ROOT, "seeded", "*"))):
    name = os.path.basename(d)
    rp = os.path.join(d, "result.json")
    if name not in DESC or not os.path.exists(rp): continue
    try: r = json.load(open(rp))
    except ValueError: continue
    prop, what, needs = DESC[name]
    # (the demonstrations of the C24 seeds pass under plain `cargo test` by design and are reported by Miri)
    miri = r.get("demo_under_miri") or {}
    confirmed = r.get("demo_on_unchanged_tree") == "pass" and (str(r.get("demo_with_patch", "")).startswith("fail") or miri.get("confirmed")) and r.get("existing_suite_with_patch", {}).get("failed", 1) == 0
    meta = {"property": prop, "change": what, "needs_to_manifest": needs,
            "confirmation": {"demo_on_unchanged_tree": r.get("demo_on_unchanged_tree"), "existing_suite_with_patch": r.get("existing_suite_with_patch"), "demo_with_patch": r.get("demo_with_patch"), "demo_under_miri": miri or None, "confirmed": confirmed},
            "ran": ["tools/seedtest.py seeded/%s --checks %s   (scratch worktree of /repo HEAD; cargo test --offline for the suite and the demo; VERIF_REPO=<worktree> ./check <ID> --tier quick)" % (name, ",".join(r.get("checks", {}).keys()))],
            "checks": {k: {"exit": v["rc"], "violation_lines": v["violation_lines"], "wall_s": v["wall_s"]} for k, v in r.get("checks", {}).items()},
            "caught_by": r.get("caught_by", [])}
    json.dump(meta, open(os.path.join(d, "meta.json"), "w"), indent=1)
    rows.append("| seeded/%s | %s | %s | %s | %s | %s |" % (name, prop, what, needs, ", ".join(meta["checks"].keys()), ", ".join(meta["caught_by"]) or "**none**"))
t1 = "| change | breaks | what it does | needs, in order to manifest | quick checks run | quick checks that fire |\n|---|---|---|---|---|---|\n" + "\n".join(rows)
print(t1)
print()
t2 = ["| re-introduced defect | quick checks run | quick checks that fire |", "|---|---|---|"]
for d in sorted(glob.glob(os.path.join(ROOT, "mutants", "revert_*"))):
    rp = os.path.join(d, "result.json")
    try: r = json.load(open(rp))
    except (OSError, ValueError): continue
    t2.append("| %s | %s | %s |" % (os.path.basename(d), ", ".join(r.get("checks", {}).keys()), ", ".join(r.get("caught_by", [])) or "**none**"))
print("\n".join(t2))
import sys
if "--write-design" in sys.argv:
    dp = os.path.join(ROOT, "DESIGN.md")
    ds = open(dp).read()
    import re as _re
    ds = _re.sub(r"<!-- TABLE:SEEDS -->.*?<!-- /TABLE:SEEDS -->", lambda m: "<!-- TABLE:SEEDS -->\n" + t1 + "\n<!-- /TABLE:SEEDS -->", ds, flags=_re.S)
    ds = _re.sub(r"<!-- TABLE:REVERTS -->.*?<!-- /TABLE:REVERTS -->", lambda m: "<!-- TABLE:REVERTS -->\n" + "\n".join(t2) + "\n<!-- /TABLE:REVERTS -->", ds, flags=_re.S)
    open(dp, "w").write(ds)
