#!/usr/bin/env python3
"""Confirms a seeded change and runs the checks against it, in a scratch worktree.

  tools/seedtest.py <dir with patch.diff and demo.rs> [--checks C01,C02 | --checks all] [--tier quick] [--skip-confirm]

1. scratch worktree of /repo HEAD under /tmp (removed at the end, with its build output);
2. demo on the unchanged tree must pass; with the patch the existing suite must pass and the
   demo must fail;
3. every requested check is run against the patched copy (VERIF_REPO self-test mode of ./check);
prints one JSON object; never touches /repo's working tree.
"""
import json, os, re, shutil, subprocess, sys, time

ROOT = os.path.dirname(os.path.dirname(os.path.abspath(__file__)))

def sh(cmd, cwd=None, env=None, timeout=3600):
    e = dict(os.environ, CARGO_NET_OFFLINE="true")
    if env: e.update(env)
    r = subprocess.run(cmd, cwd=cwd, env=e, stdout=subprocess.PIPE, stderr=subprocess.STDOUT, text=True, timeout=timeout)
    return r.returncode, r.stdout

# the build output of the repository's own tests is shared between the seeds of one stream
SHARED = os.environ.get("SEED_TARGET")

def cargo_env():
    return {"CARGO_TARGET_DIR": SHARED} if SHARED else {}

def nextest_summary(out):
    m = re.search(r"Summary \[[^\]]*\]\s+(\d+) tests? run: (\d+) passed(?:, (\d+) failed)?", out)
    if not m: return 0, -1
    return int(m.group(2)), int(m.group(3) or 0)

def test_summary(out):
    passed = sum(int(m.group(1)) for m in re.finditer(r"test result: \w+\. (\d+) passed", out))
    failed = sum(int(m.group(1)) for m in re.finditer(r"test result: \w+\. \d+ passed; (\d+) failed", out))
    return passed, failed

def main():
    a = sys.argv[1:]
    sdir = os.path.abspath(a[0])
    checks = []; tier = "quick"; skip = False
    i = 1
    while i < len(a):
        if a[i] == "--checks": checks = a[i + 1].split(","); i += 2
        elif a[i] == "--tier": tier = a[i + 1]; i += 2
        elif a[i] == "--skip-confirm": skip = True; i += 1
        else: i += 1
    if checks == ["all"]:
        checks = [c["property_id"] for c in json.load(open(os.path.join(ROOT, "MANIFEST.json")))["checks"]]
    name = re.sub(r"[^A-Za-z0-9]+", "_", os.path.relpath(sdir, ROOT))
    wt = "/tmp/mut_%s_%d" % (name, os.getpid())
    res = {"seed": os.path.relpath(sdir, ROOT), "worktree": wt, "checks": {}}
    subprocess.run(["git", "-C", "/repo", "worktree", "add", "--detach", wt, "HEAD", "-q"], check=True)
    try:
        if os.path.exists("/repo/Cargo.lock"): shutil.copy("/repo/Cargo.lock", wt)
        patch = os.path.join(sdir, "patch.diff")
        demo = os.path.join(sdir, "demo.rs")
        if not skip:
            if os.path.exists(demo):
                shutil.copy(demo, os.path.join(wt, "tests", "seed_demo.rs"))
                rc, out = sh(["cargo", "test", "--offline", "--test", "seed_demo", "--", "--test-threads=1"], cwd=wt, env=cargo_env())
                res["demo_on_unchanged_tree"] = "pass" if rc == 0 else "FAIL"
                if rc != 0: res["demo_on_unchanged_output"] = out[-1500:]
        rc, out = sh(["git", "apply", patch], cwd=wt)
        if rc != 0:
            res["error"] = "patch does not apply: " + out[-500:]
            print(json.dumps(res, indent=1)); return 2
        if not skip:
            if os.path.exists(os.path.join(wt, "tests", "seed_demo.rs")): os.remove(os.path.join(wt, "tests", "seed_demo.rs"))
            # the pinned suite the way the baseline runs it: nextest, one process per test (the
            # repository's unit tests share global state and are flaky when run as threads of one process)
            rc, out = sh(["cargo", "nextest", "run", "--workspace", "--no-fail-fast", "--offline", "--test-threads", "8"], cwd=wt, env=cargo_env())
            p, f = nextest_summary(out)
            attempts = 1
            while f != 0 and attempts < 3:
                rc, out = sh(["cargo", "nextest", "run", "--workspace", "--no-fail-fast", "--offline", "--test-threads", "2"], cwd=wt, env=cargo_env())
                p, f = nextest_summary(out); attempts += 1
            res["existing_suite_with_patch"] = {"rc": rc, "passed": p, "failed": f, "attempts": attempts, "runner": "cargo nextest run --workspace (the 100 pinned tests)"}
            if rc != 0: res["existing_suite_output"] = "\n".join(l for l in out.splitlines() if "FAILED" in l or "panicked" in l)[-1500:]
            if os.path.exists(demo):
                shutil.copy(demo, os.path.join(wt, "tests", "seed_demo.rs"))
                rc, out = sh(["cargo", "test", "--offline", "--test", "seed_demo", "--", "--test-threads=1"], cwd=wt, env=cargo_env())
                res["demo_with_patch"] = "fail (as required)" if rc != 0 else "PASSES (change not demonstrated)"
                os.remove(os.path.join(wt, "tests", "seed_demo.rs"))
        for c in checks:
            t0 = time.time()
            rc, out = sh([os.path.join(ROOT, "check"), c, "--tier", tier], cwd=ROOT, env={"VERIF_REPO": wt}, timeout=4 * 3600)
            nv = len(re.findall(r"^VIOLATION", out, re.M))
            first = ""
            m = re.search(r"witness: (.*)", out)
            if m: first = m.group(1)[:400]
            res["checks"][c] = {"rc": rc, "violation_lines": nv, "wall_s": round(time.time() - t0, 1), "first_witness": first}
            if rc == 2: res["checks"][c]["tail"] = out[-600:]
        res["caught_by"] = [c for c, v in res["checks"].items() if v["rc"] == 1]
        print(json.dumps(res, indent=1))
    finally:
        subprocess.run(["git", "-C", "/repo", "worktree", "remove", "--force", wt])
        shutil.rmtree(wt, ignore_errors=True)
        tag = "_alt_" + __import__("hashlib").sha1(wt.encode()).hexdigest()[:8]
        for d in ("replay" + tag, "evidence" + tag):
            shutil.rmtree(os.path.join(ROOT, "work", d), ignore_errors=True)
        for c in checks:
            shutil.rmtree(os.path.join(ROOT, "work", c, tier + tag), ignore_errors=True)
    return 0

if __name__ == "__main__":
    sys.exit(main())
