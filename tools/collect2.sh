#!/bin/bash
# collect round-2 seeds of one property: seed_out/A -> seeded/<id>-C, seed_out/B -> seeded/<id>-D
id=$1
for pair in A:C B:D; do src=${pair%%:*}; dst=${pair##*:}; mkdir -p /verif/seeded/$id-$dst; cp /tmp/seed2_$id/seed_out/$src/patch.diff /tmp/seed2_$id/seed_out/$src/demo.rs /tmp/seed2_$id/seed_out/$src/notes.md /verif/seeded/$id-$dst/; done
git -C /repo worktree remove --force /tmp/seed2_$id; rm -rf /tmp/seed2_$id
ls /verif/seeded | grep $id
