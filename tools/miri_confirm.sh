#!/bin/bash
# confirm a C24 seed under Miri: $1 = seed name
s=$1; W=/tmp/miriconf_$s
git -C /repo worktree add --detach $W HEAD -q; cp /repo/Cargo.lock $W/
cp /verif/seeded/$s/demo.rs $W/tests/seed_demo.rs
cd $W
export MIRIFLAGS="-Zmiri-disable-isolation -Zmiri-ignore-leaks" CARGO_NET_OFFLINE=true
cargo +nightly miri test --offline --test seed_demo > /tmp/miriconf_$s.clean.log 2>&1; rc1=$?
ub1=$(grep -c "Undefined Behavior" /tmp/miriconf_$s.clean.log)
git apply /verif/seeded/$s/patch.diff
cargo +nightly miri test --offline --test seed_demo > /tmp/miriconf_$s.patched.log 2>&1; rc2=$?
ub2=$(grep -c "Undefined Behavior" /tmp/miriconf_$s.patched.log)
echo "$s unchanged: rc=$rc1 UB-reports=$ub1 | patched: rc=$rc2 UB-reports=$ub2 $(grep -m1 'Undefined Behavior' /tmp/miriconf_$s.patched.log | cut -c1-160)"
cd /; git -C /repo worktree remove --force $W; rm -rf $W
