#!/bin/bash
# detection only (no confirmation): own property's quick check against each seed
cd /verif
for s in "$@"; do
  id=${s%%-*}
  extra=${EXTRA:-}
  out=$(python3 tools/seedtest.py seeded/$s --skip-confirm --checks $id$extra 2>&1)
  echo "$s $(echo "$out" | python3 -c "import json,sys; r=json.load(sys.stdin); print({k:v['rc'] for k,v in r['checks'].items()}, list(r['checks'].values())[0]['first_witness'][:200])" 2>/dev/null)" | tee -a work/triage.log
done
