#!/bin/bash
# tools/sweep.sh <tier> <seeds...> [-- ids...] : runs checks at several seeds, prints one line each
cd /verif
tier=$1; shift
seeds=(); ids=()
while [ $# -gt 0 ]; do if [ "$1" = "--" ]; then shift; ids=("$@"); break; fi; seeds+=("$1"); shift; done
if [ ${#ids[@]} -eq 0 ]; then ids=($(python3 -c "import json;print(' '.join(c['property_id'] for c in json.load(open('MANIFEST.json'))['checks']))")); fi
for s in "${seeds[@]}"; do for p in "${ids[@]}"; do
  out=$(VERIF_SEED=$s ./check $p --tier $tier 2>&1); rc=$?
  echo "seed=$s $p rc=$rc $(echo "$out" | grep -E '^check .* seed=' | sed 's/^check [^:]*: //')"
  echo "$out" | grep -E "VIOLATION|KNOWN-FINDING|HARNESS|witness" | head -5
done; done
