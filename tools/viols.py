#!/usr/bin/env python3
import json,glob,collections,sys
for p in sys.argv[1:]:
    tier='quick'
    kinds=collections.defaultdict(list)
    for f in sorted(glob.glob(f'/verif/work/{p}/{tier}/*.jsonl')):
        if '/only' in f: continue
        for l in open(f, errors='replace'):
            try: d=json.loads(l)
            except: continue
            if d.get('t')=='violation':
                kinds[d['sig'].split('|')[0]].append(d)
    print('==',p,{k:len(v) for k,v in kinds.items()})
    for k,v in kinds.items():
        for d in v[:4]:
            w=d['witness']
            if isinstance(w,dict) and 'left' in w:
                print('   ',k,'|',w.get('prior'),'|',w.get('left'),'~',w.get('right'),'|',w.get('detail','')[:300])
            else: print('   ',k,'|',json.dumps(w)[:500], '| case', json.dumps(d.get('case'))[:300])
    try:
        ev=json.load(open(f'/verif/evidence/{p}.json')); c=ev['coverage']; print('   wall',ev['wall_s'],'evals',c['evaluations'],'distinct',c['distinct_nontrivial'],'viol',ev['violations'],'incon',c['inconclusive'], c['counters'], c['skipped_out_of_domain'])
    except Exception as e: print(e)
