//! Case protocol shared by all property workloads, panic capture, stdout capture.
use std::cell::RefCell;
use std::fs::{File, OpenOptions};
use std::io::{Read, Seek, SeekFrom, Write};
use std::panic::{self, AssertUnwindSafe};

#[derive(Clone, Debug)]
pub enum Verdict {
    Held,
    /// outside the property's domain (counted, never a verdict on the property)
    Skipped(&'static str),
    Inconclusive(String),
    /// sig: stable signature used for known-finding matching; witness: JSON text
    Violated { sig: String, witness: String },
}

#[derive(Clone, Debug)]
pub struct Outcome {
    pub verdict: Verdict,
    /// number of oracle evaluations performed in this case
    pub evals: u64,
    pub nontrivial: bool,
    /// identity of the case for distinct counting
    pub hash: u64,
    /// JSON text describing the case (kept for a few cases as samples)
    pub sample: String,
    pub counters: Vec<(&'static str, u64)>,
}

impl Outcome {
    pub fn new(hash: u64) -> Outcome {
        Outcome { verdict: Verdict::Held, evals: 1, nontrivial: false, hash, sample: String::new(), counters: vec![] }
    }
    pub fn count(&mut self, k: &'static str, n: u64) {
        if n == 0 { return; }
        for c in self.counters.iter_mut() { if c.0 == k { c.1 += n; return; } }
        self.counters.push((k, n));
    }
    pub fn violate(&mut self, sig: String, witness: String) {
        if !matches!(self.verdict, Verdict::Violated { .. }) { self.verdict = Verdict::Violated { sig, witness }; }
    }
    pub fn is_violated(&self) -> bool { matches!(self.verdict, Verdict::Violated { .. }) }
}

#[derive(Clone, Copy, Debug, PartialEq, Eq)]
pub enum Tier { Quick, Thorough }

pub trait Workload {
    /// number of cases
    fn total(&self) -> u64;
    fn run(&mut self, idx: u64) -> Outcome;
    /// JSON text describing case idx without touching the engine (used to name the case a
    /// crashed or hung worker was executing)
    fn describe(&mut self, _idx: u64) -> String { String::new() }
    /// true for a case that legitimately runs for many seconds (the supervisor then allows it ten
    /// times the usual time without progress before it treats the worker as hung)
    fn slow_case(&self, _idx: u64) -> bool { false }
    /// rule text for the evidence file
    fn rule(&self) -> String;
    /// true if the enumerated (non-random) part was covered completely by `total`
    fn exhaustive_part(&self) -> Option<String> { None }
}

// ------------------------------------------------------------------ panic capture

thread_local! {
    static LAST_PANIC: RefCell<Option<(String, String)>> = RefCell::new(None);
    /// set when a panic reports that the operating system refused a resource (thread, memory):
    /// an environment failure, never an observation about the engine
    static RESOURCE_PANIC: RefCell<Option<String>> = RefCell::new(None);
}

pub fn take_resource_panic() -> Option<String> { RESOURCE_PANIC.with(|p| p.borrow_mut().take()) }

pub fn install_panic_hook() {
    panic::set_hook(Box::new(|info| {
        let msg = if let Some(s) = info.payload().downcast_ref::<&str>() { s.to_string() }
                  else if let Some(s) = info.payload().downcast_ref::<String>() { s.clone() }
                  else { "<non-string panic>".to_string() };
        let loc = info.location().map(|l| format!("{}:{}", l.file(), l.line())).unwrap_or_default();
        if ["failed to spawn thread", "Resource temporarily unavailable", "Cannot allocate memory", "os error 11", "os error 12", "Too many open files", "os error 24"].iter().any(|k| msg.contains(k)) {
            RESOURCE_PANIC.with(|p| *p.borrow_mut() = Some(msg.clone()));
        }
        LAST_PANIC.with(|p| *p.borrow_mut() = Some((msg, loc)));
    }));
}

#[derive(Clone, Debug)]
pub struct Panic { pub msg: String, pub loc: String }
impl Panic {
    /// source file of the panic, without line number and without the checkout prefix
    pub fn file(&self) -> String {
        let f = self.loc.split(':').next().unwrap_or("").to_string();
        match f.rfind("src/") { Some(p) => f[p..].to_string(), None => f }
    }
    /// message with digits and quoted payload removed, so that the signature names the
    /// panic site and kind rather than the input
    pub fn kind(&self) -> String {
        let mut m: String = self.msg.chars().take(60).collect();
        if let Some(p) = m.find(':') { m.truncate(p); }
        m.chars().map(|c| if c.is_ascii_digit() { '#' } else { c }).collect()
    }
    /// the panic was raised by the repository's code (wherever the checkout lives), not by the monitor
    pub fn in_engine(&self) -> bool { !self.loc.contains("/verif/monitor/") && !self.loc.contains("/rustc/") && !self.loc.contains("/library/") }
}

/// Run f; a panic becomes Err with message and location.
pub fn guarded<R>(f: impl FnOnce() -> R) -> Result<R, Panic> {
    LAST_PANIC.with(|p| *p.borrow_mut() = None);
    match panic::catch_unwind(AssertUnwindSafe(f)) {
        Ok(r) => Ok(r),
        Err(_) => {
            let (msg, loc) = LAST_PANIC.with(|p| p.borrow_mut().take()).unwrap_or(("<unknown>".into(), "".into()));
            Err(Panic { msg, loc })
        }
    }
}

// ------------------------------------------------------------------ stdout capture

extern "C" { fn dup2(oldfd: i32, newfd: i32) -> i32; }

pub struct Capture { reader: File, writer: File, pos: u64 }

thread_local! { static CAPTURE: RefCell<Option<Capture>> = RefCell::new(None); }

/// Redirect fd 1 of this process to `path` (append mode). Everything the engine prints is
/// read back from there; the worker's own records use other descriptors.
pub fn capture_stdout(path: &str) {
    use std::os::unix::io::AsRawFd;
    let writer = OpenOptions::new().create(true).append(true).open(path).expect("capture file");
    writer.set_len(0).ok();
    let reader = File::open(path).expect("capture file (read)");
    let rc = unsafe { dup2(writer.as_raw_fd(), 1) };
    assert!(rc >= 0, "dup2 failed");
    CAPTURE.with(|c| *c.borrow_mut() = Some(Capture { reader, writer, pos: 0 }));
}

/// Bytes written to stdout since the previous call.
pub fn take_output() -> String {
    std::io::stdout().flush().ok();
    CAPTURE.with(|c| {
        let mut c = c.borrow_mut();
        let cap = match c.as_mut() { Some(c) => c, None => return String::new() };
        let mut buf = Vec::new();
        cap.reader.seek(SeekFrom::Start(cap.pos)).ok();
        cap.reader.read_to_end(&mut buf).ok();
        cap.pos += buf.len() as u64;
        if cap.pos > (1 << 20) {
            // fd 1 is in append mode, so truncating restarts the file at offset 0
            cap.writer.set_len(0).ok();
            cap.pos = 0;
        }
        String::from_utf8_lossy(&buf).into_owned()
    })
}

// ------------------------------------------------------------------ composition

/// Concatenation of workloads (index spaces laid end to end).
pub struct Compose { pub parts: Vec<Box<dyn Workload>> }

impl Compose {
    fn locate(&self, idx: u64) -> (usize, u64) {
        let mut i = idx;
        for (k, p) in self.parts.iter().enumerate() {
            let t = p.total();
            if i < t { return (k, i); }
            i -= t;
        }
        (self.parts.len() - 1, 0)
    }
}

impl Workload for Compose {
    fn total(&self) -> u64 { self.parts.iter().map(|p| p.total()).sum() }
    fn run(&mut self, idx: u64) -> Outcome { let (k, i) = self.locate(idx); self.parts[k].run(i) }
    fn describe(&mut self, idx: u64) -> String { let (k, i) = self.locate(idx); self.parts[k].describe(i) }
    fn slow_case(&self, idx: u64) -> bool { let (k, i) = self.locate(idx); self.parts[k].slow_case(i) }
    fn rule(&self) -> String { self.parts.iter().enumerate().map(|(i, p)| format!("part {}: {}", i + 1, p.rule())).collect::<Vec<_>>().join(" || ") }
    fn exhaustive_part(&self) -> Option<String> {
        let v: Vec<String> = self.parts.iter().filter_map(|p| p.exhaustive_part()).collect();
        if v.is_empty() { None } else { Some(v.join("; ")) }
    }
}
