//! Reference depth-first interpreter (C01-C05, C11) with the documented cut, negation as
//! failure, output events and the built-ins as stated in C04, C12-C14, C16, C17.
//! Every situation the statements leave open is reported as out of domain (OOD).
use crate::rt::*;
use crate::runify::Subst;
use std::rc::Rc;

#[derive(Clone, Debug, PartialEq)]
pub enum Ev { Out(String), Ans(Vec<T>) }

#[derive(Clone, Copy, Debug, PartialEq)]
enum Sig { Cont, CutFail(usize), NotFound(usize), Stop }

enum K { Done, Goal(Rc<G>, usize, Rc<K>), Pop(usize, Rc<K>), NotEnd(usize),
         /// a cut written directly in the goal list of conjunction instance `.0`
         CutIn(usize, usize, Rc<K>),
         /// end of the goal list of conjunction instance `.0` (only placed when the list has a cut)
         EndAnd(usize, usize, Rc<K>) }

#[derive(Default, Clone, Debug)]
pub struct Stats {
    pub steps: u64, pub answers: u64, pub clause_retries: u64, pub or_retries: u64,
    pub cuts: u64, pub cut_pending_clauses: u64, pub cut_then_fail: u64, pub cut_pending_left: u64,
    pub not_true: u64, pub not_false: u64, pub prints: u64, pub max_print_repeat: u64,
    pub calls: u64, pub builtins: u64, pub head_unify_fail: u64,
}

struct Frame { cut: bool, answered_since_cut: bool, more_clauses: bool, left_choice: bool }

pub struct Interp<'p> {
    prog: &'p Program,
    pub s: Subst,
    pub events: Vec<Ev>,
    pub ood: Option<String>,
    pub budget_hit: bool,
    pub stats: Stats,
    frames: Vec<Frame>,
    next_inst: u32,
    next_not: usize,
    depth: usize,
    pub max_steps: u64,
    pub max_depth: usize,
    pub max_answers: usize,
    query_args: Vec<T>,
    print_sites: Vec<(usize, u64)>,
    /// number of open choice points (clause alternatives / or alternatives) per frame, used
    /// only for the "cut with pending alternatives" statistic
    choice_depth: usize,
    /// How a failure is treated that comes back into a parenthesised conjunction after a cut
    /// inside it has run and the conjunction has been left. The statement of C02 does not
    /// say whether the goals to the right of that cut may then be retried. `true`: as the
    /// engine documents it (backtracking is disabled on every ancestor of the cut, so the
    /// group cannot be re-entered and the call fails); `false`: the goals after the cut
    /// are retried like any others. Cases on which the two readings differ are outside the
    /// claim (see `solve`).
    pub group_cut_closed: bool,
    and_cut: Vec<bool>,
}

pub struct RefResult { pub events: Vec<Ev>, pub stats: Stats, pub complete: bool }

/// Result of running the reference: Err(reason) = out of domain / budget (case is discarded).
pub fn solve(prog: &Program, qname: &str, qargs: &[T], max_steps: u64, max_answers: usize) -> Result<RefResult, String> {
    let r = solve_mode(prog, qname, qargs, max_steps, max_answers, true)?;
    if r.stats.cuts > 0 {
        // the statement leaves one aspect of the cut open (see `group_cut_closed`): keep the
        // case only when both readings give the same observations
        match solve_mode(prog, qname, qargs, max_steps, max_answers, false) {
            Ok(r2) if r2.events == r.events && r2.complete == r.complete => {}
            Ok(_) => return Err("ood: retry of goals after a cut inside a parenthesised group is left open by the statement".into()),
            Err(e) => return Err(e),
        }
    }
    Ok(r)
}

pub fn solve_mode(prog: &Program, qname: &str, qargs: &[T], max_steps: u64, max_answers: usize, group_cut_closed: bool) -> Result<RefResult, String> {
    let mut it = Interp::new(prog);
    it.group_cut_closed = group_cut_closed;
    it.max_steps = max_steps;
    it.max_answers = max_answers;
    let args: Vec<T> = qargs.iter().map(|t| t.rename_inst(1)).collect();
    it.query_args = args.clone();
    it.next_inst = 2;
    it.frames.push(Frame { cut: false, answered_since_cut: false, more_clauses: false, left_choice: false });
    let k = Rc::new(K::Goal(Rc::new(G::Call(qname.to_string(), args)), 0, Rc::new(K::Done)));
    let r = it.run(&k);
    if let Some(o) = it.ood { return Err(format!("ood: {}", o)); }
    if it.budget_hit { return Err("budget".into()); }
    Ok(RefResult { events: it.events, stats: it.stats, complete: r != Sig::Stop })
}

impl<'p> Interp<'p> {
    pub fn new(prog: &'p Program) -> Interp<'p> {
        Interp { prog, s: Subst::new(), events: vec![], ood: None, budget_hit: false, stats: Stats::default(), frames: vec![],
                 next_inst: 1, next_not: 0, depth: 0, max_steps: 20_000, max_depth: 3000, max_answers: 64, query_args: vec![],
                 print_sites: vec![], choice_depth: 0, group_cut_closed: true, and_cut: vec![] }
    }

    fn stop_ood(&mut self, why: &str) -> Sig { if self.ood.is_none() { self.ood = Some(why.to_string()); } Sig::Stop }

    fn run(&mut self, k: &Rc<K>) -> Sig {
        self.stats.steps += 1;
        if self.stats.steps > self.max_steps { self.budget_hit = true; return Sig::Stop; }
        if self.depth > self.max_depth { self.budget_hit = true; return Sig::Stop; }
        self.depth += 1;
        let r = self.run_inner(k);
        self.depth -= 1;
        r
    }

    fn run_inner(&mut self, k: &Rc<K>) -> Sig {
        match &**k {
            K::Done => {
                let ans: Vec<T> = self.query_args.iter().map(|t| self.s.resolve(t)).collect();
                self.events.push(Ev::Ans(ans));
                self.stats.answers += 1;
                for f in self.frames.iter_mut() { if f.cut { f.answered_since_cut = true; } }
                if self.stats.answers as usize >= self.max_answers { Sig::Stop } else { Sig::Cont }
            }
            K::NotEnd(id) => Sig::NotFound(*id),
            K::Pop(f, rest) => {
                let r = self.run(rest);
                match r {
                    Sig::Cont => if self.frames[*f].cut { Sig::CutFail(*f) } else { Sig::Cont },
                    other => other,
                }
            }
            K::Goal(g, fr, rest) => self.goal(g, *fr, rest),
            K::CutIn(id, fr, rest) => { self.and_cut[*id] = true; self.cut(*fr, rest) }
            K::EndAnd(id, fr, rest) => {
                let r = self.run(rest);
                match r {
                    Sig::Cont if self.and_cut[*id] && self.group_cut_closed => Sig::CutFail(*fr),
                    other => other,
                }
            }
        }
    }

    fn goal(&mut self, g: &Rc<G>, fr: usize, rest: &Rc<K>) -> Sig {
        match &**g {
            G::And(gs) => {
                let mut k = rest.clone();
                let has_cut = gs.iter().any(|x| matches!(x, G::Cut));
                let id = self.and_cut.len();
                if has_cut { self.and_cut.push(false); k = Rc::new(K::EndAnd(id, fr, k)); }
                for x in gs.iter().rev() {
                    k = if matches!(x, G::Cut) { Rc::new(K::CutIn(id, fr, k)) } else { Rc::new(K::Goal(Rc::new(x.clone()), fr, k)) };
                }
                self.run(&k)
            }
            G::Or(gs) => {
                let n = gs.len();
                for (i, x) in gs.iter().enumerate() {
                    if i > 0 { self.stats.or_retries += 1; }
                    let mark = self.s.mark();
                    if i + 1 < n { self.choice_depth += 1; }
                    let r = self.run(&Rc::new(K::Goal(Rc::new(x.clone()), fr, rest.clone())));
                    if i + 1 < n { self.choice_depth -= 1; }
                    self.s.undo(mark);
                    if r != Sig::Cont { return r; }
                }
                Sig::Cont
            }
            G::Not(x) => {
                if x.contains(&|g| matches!(g, G::Cut)) { return self.stop_ood("cut inside not"); }
                let id = self.next_not; self.next_not += 1;
                let mark = self.s.mark();
                let r = self.run(&Rc::new(K::Goal(Rc::new((**x).clone()), fr, Rc::new(K::NotEnd(id)))));
                self.s.undo(mark);
                match r {
                    Sig::NotFound(i) if i == id => { self.stats.not_false += 1; Sig::Cont }
                    Sig::Cont => { self.stats.not_true += 1; self.run(rest) }
                    other => other,
                }
            }
            G::Cut => self.cut(fr, rest),
            G::Call(name, args) => self.call(name, args, rest),
            G::Fail => Sig::Cont,
            other => self.builtin(other, rest),
        }
    }

    fn cut(&mut self, fr: usize, rest: &Rc<K>) -> Sig {
        self.stats.cuts += 1;
        if self.frames[fr].more_clauses { self.stats.cut_pending_clauses += 1; }
        if self.frames[fr].left_choice || self.choice_depth > 0 { self.stats.cut_pending_left += 1; }
        self.frames[fr].cut = true;
        self.frames[fr].answered_since_cut = false;
        let r = self.run(rest);
        match r {
            Sig::Cont => {
                if !self.frames[fr].answered_since_cut { self.stats.cut_then_fail += 1; }
                Sig::CutFail(fr)
            }
            other => other,
        }
    }

    fn call(&mut self, name: &str, args: &[T], rest: &Rc<K>) -> Sig {
        self.stats.calls += 1;
        let clauses: Vec<&Clause> = self.prog.clauses_for(name, args.len()).collect();
        let f = self.frames.len();
        self.frames.push(Frame { cut: false, answered_since_cut: false, more_clauses: false, left_choice: false });
        let n = clauses.len();
        let mut matched_before = false;
        for (ci, c) in clauses.iter().enumerate() {
            let inst = self.next_inst; self.next_inst += 1;
            let mark = self.s.mark();
            let mut ok = true;
            for (h, a) in c.args.iter().zip(args) {
                let h = h.rename_inst(inst);
                if !self.s.unify(&h, a) { ok = false; break; }
            }
            if self.s.occurs_needed { return self.stop_ood("occurs check needed"); }
            if self.s.func_seen { return self.stop_ood("function term reached by plain unification"); }
            if !ok { self.stats.head_unify_fail += 1; self.s.undo(mark); continue; }
            if matched_before { self.stats.clause_retries += 1; }
            matched_before = true;
            self.frames[f].more_clauses = ci + 1 < n;
            let k = match &c.body {
                None => Rc::new(K::Pop(f, rest.clone())),
                Some(b) => Rc::new(K::Goal(Rc::new(b.rename_inst(inst)), f, Rc::new(K::Pop(f, rest.clone())))),
            };
            if ci + 1 < n { self.choice_depth += 1; }
            let saved_choice = self.choice_depth;
            // inside the body, "choice points to the left of a cut" are counted from here
            self.choice_depth = 0;
            let r = self.run(&k);
            self.choice_depth = saved_choice;
            if ci + 1 < n { self.choice_depth -= 1; }
            self.s.undo(mark);
            match r {
                Sig::Cont => {}
                Sig::CutFail(x) if x == f => return Sig::Cont,
                other => return other,
            }
        }
        Sig::Cont
    }

    fn out(&mut self, s: String) { self.events.push(Ev::Out(s)); }

    fn builtin(&mut self, g: &G, rest: &Rc<K>) -> Sig {
        self.stats.builtins += 1;
        let mark = self.s.mark();
        let ok: Result<bool, String> = match g {
            G::Nl => { self.out("\n".into()); Ok(true) }
            G::Print(a) => match print_text(&self.s, a) { Ok(t) => { self.stats.prints += 1; self.out(t); Ok(true) } Err(e) => Err(e) },
            G::PrintList(a) => match print_list_text(&self.s, a) { Ok(t) => { self.stats.prints += 1; self.out(t); Ok(true) } Err(e) => Err(e) },
            G::Unify(a, b) => unify_goal(&mut self.s, a, b),
            G::Cmp(c, a, b) => Ok(compare(&self.s, *c, a, b)),
            G::Append(a) => append(&mut self.s, a),
            G::Count(l, o) => count(&mut self.s, l, o),
            G::Include(f, l, o) => filter(&mut self.s, f, l, o, true),
            G::Exclude(f, l, o) => filter(&mut self.s, f, l, o, false),
            G::Functor(a) => functor(&mut self.s, a),
            _ => Err("not a builtin".into()),
        };
        if self.s.occurs_needed { return self.stop_ood("occurs check needed"); }
        match ok {
            Err(e) => self.stop_ood(&e),
            Ok(false) => { self.s.undo(mark); Sig::Cont }
            Ok(true) => {
                if self.s.func_seen { return self.stop_ood("function term reached by plain unification"); }
                let r = self.run(rest);
                self.s.undo(mark);
                r
            }
        }
    }
}

// ------------------------------------------------------------------ built-ins (pure)

fn is_ground(t: &T) -> bool { !t.has_var() && !t.has_anon() && !t.has_func() }

/// What print shows for one argument: the argument's bound value (one dereference chain).
/// The statement only covers ground values, so anything else is out of domain.
pub fn print_arg(s: &Subst, t: &T) -> Result<String, String> {
    let v = s.walk(t);
    if !is_ground(&v) { return Err("print of a non-ground value".into()); }
    if let T::Float(f) = v { if f.fract() == 0.0 || !f.is_finite() { return Err("print of a float without fractional part".into()); } }
    Ok(show(&v))
}

pub fn print_text(s: &Subst, args: &[T]) -> Result<String, String> {
    if args.is_empty() { return Err("print without arguments".into()); }
    let strs: Vec<String> = args.iter().map(|a| print_arg(s, a)).collect::<Result<_, _>>()?;
    let pieces: Vec<&str> = strs[0].split("%s").collect();
    let markers = pieces.len() - 1;
    let rest = &strs[1..];
    if markers == 0 { return Ok(format!("{}{}", strs[0], rest.concat())); }
    if markers != rest.len() { return Err("print: marker count differs from argument count".into()); }
    let mut out = pieces[0].to_string();
    for i in 0..markers { out.push_str(&rest[i]); out.push_str(pieces[i + 1]); }
    Ok(out)
}

/// Elements of a list value, following bound tail variables. Err when the list is open
/// (unbound or wildcard tail) or the value is not a list.
pub fn list_elements(s: &Subst, t: &T) -> Result<Vec<T>, String> {
    let mut out = vec![];
    let mut cur = s.walk(t);
    let mut guard = 0;
    loop {
        guard += 1; if guard > 10_000 { return Err("list too long".into()); }
        match cur {
            T::List(e, tl) => {
                out.extend(e.into_iter());
                match tl { None => return Ok(out), Some(x) => { cur = s.walk(&x); } }
            }
            T::Var(..) => return Err("list with unbound tail".into()),
            T::Anon => return Err("list with wildcard tail".into()),
            _ => return Err("not a list / improper tail".into()),
        }
    }
}

pub fn print_list_text(s: &Subst, args: &[T]) -> Result<String, String> {
    if args.len() != 1 { return Err("print_list with other than one argument".into()); }
    let v = s.walk(&args[0]);
    if !matches!(v, T::List(..)) { return Err("print_list of a non-list".into()); }
    let elems = list_elements(s, &v)?;
    let strs: Vec<String> = elems.iter().map(|e| print_arg(s, e)).collect::<Result<_, _>>()?;
    Ok(format!("{}\n", strs.join(", ")))
}

#[derive(Clone, Copy, Debug, PartialEq)]
pub enum Num { I(i64), F(f64) }

/// Left-to-right fold as stated in C12. Err = out of domain.
pub fn arith(op: &str, nums: &[Num]) -> Result<Num, String> {
    if nums.is_empty() { return Err("arithmetic without arguments".into()); }
    let any_float = nums.iter().any(|n| matches!(n, Num::F(_)));
    if any_float {
        let f: Vec<f64> = nums.iter().map(|n| match n { Num::I(i) => *i as f64, Num::F(f) => *f }).collect();
        let r = match op {
            "add" => f.iter().fold(0.0, |a, x| a + x),
            "multiply" => f.iter().fold(1.0, |a, x| a * x),
            "subtract" => f[1..].iter().fold(f[0], |a, x| a - x),
            "divide" => f[1..].iter().fold(f[0], |a, x| a / x),
            _ => return Err("unknown function".into()),
        };
        Ok(Num::F(r))
    } else {
        let i: Vec<i64> = nums.iter().map(|n| match n { Num::I(i) => *i, Num::F(_) => 0 }).collect();
        let mut acc: i64 = match op { "add" => 0, "multiply" => 1, _ => i[0] };
        let it: &[i64] = match op { "add" | "multiply" => &i[..], _ => &i[1..] };
        for x in it {
            acc = match op {
                "add" => acc.checked_add(*x),
                "multiply" => acc.checked_mul(*x),
                "subtract" => acc.checked_sub(*x),
                "divide" => { if *x == 0 { return Err("integer division by zero".into()); } acc.checked_div(*x) }
                _ => return Err("unknown function".into()),
            }.ok_or("integer overflow")?;
        }
        Ok(Num::I(acc))
    }
}

const PUNCT: [&str; 4] = [",", ".", "?", "!"];

pub fn join(s: &Subst, args: &[T]) -> Result<T, String> {
    let mut words: Vec<String> = vec![];
    for a in args {
        let v = s.walk(a);
        let items = match &v { T::List(..) => list_elements(s, &v)?, _ => vec![v.clone()] };
        for it in items {
            let r = s.resolve(&it);
            if !is_ground(&r) { return Err("join of a non-ground value".into()); }
            if let T::Float(f) = r { if f.fract() == 0.0 { return Err("join of a float without fractional part".into()); } }
            words.push(show(&r));
        }
    }
    if words.is_empty() { return Err("join of nothing".into()); }
    if PUNCT.contains(&words[0].as_str()) { return Err("join starting with punctuation".into()); }
    let mut out = String::new();
    for (i, w) in words.iter().enumerate() {
        if i > 0 && !PUNCT.contains(&w.as_str()) { out.push(' '); }
        out.push_str(w);
    }
    Ok(T::Atom(out))
}

/// Value of a function term. Err = out of domain (unbound / non-numeric argument, overflow...).
pub fn eval_func(s: &Subst, name: &str, args: &[T]) -> Result<T, String> {
    if name == "join" { return join(s, args); }
    let mut nums = vec![];
    for a in args {
        match s.walk(a) {
            T::Int(i) => nums.push(Num::I(i)),
            T::Float(f) => nums.push(Num::F(f)),
            T::Var(..) => return Err("arithmetic on an unbound variable".into()),
            _ => return Err("arithmetic on a non-number".into()),
        }
    }
    match arith(name, &nums)? { Num::I(i) => Ok(T::Int(i)), Num::F(f) => Ok(T::Float(f)) }
}

/// `A = B` where either side may be a function term (C13).
pub fn unify_goal(s: &mut Subst, a: &T, b: &T) -> Result<bool, String> {
    let wa = s.walk(a); let wb = s.walk(b);
    // A function term that is an argument of a complex term is evaluated when unification reaches
    // it. The reference evaluates such arguments up front, which gives the same value whenever
    // their own arguments are ground already; otherwise the case is out of domain.
    fn eval_args(s: &Subst, t: &T) -> Result<T, String> {
        match t {
            T::Func(n, x) => eval_func(s, n, x),
            T::Cplx(f, a) if a.iter().any(|x| x.has_func()) => Ok(T::Cplx(f.clone(), a.iter().map(|x| match x { T::Func(n, y) => eval_func(s, n, y), other => Ok(other.clone()) }).collect::<Result<Vec<T>, String>>()?)),
            other => Ok(other.clone()),
        }
    }
    let va = eval_args(s, &wa)?;
    let vb = eval_args(s, &wb)?;
    if va.has_func() || vb.has_func() { return Err("nested function term".into()); }
    Ok(s.unify(&va, &vb))
}

pub fn compare(s: &Subst, c: Cmp, a: &T, b: &T) -> bool {
    use std::cmp::Ordering::*;
    let (x, y) = (s.walk(a), s.walk(b));
    let ord: Option<std::cmp::Ordering> = match (&x, &y) {
        (T::Int(p), T::Int(q)) => Some(p.cmp(q)),
        (T::Float(p), T::Float(q)) => p.partial_cmp(q),
        (T::Int(p), T::Float(q)) => (*p as f64).partial_cmp(q),
        (T::Float(p), T::Int(q)) => p.partial_cmp(&(*q as f64)),
        (T::Atom(p), T::Atom(q)) => Some(p.as_bytes().cmp(q.as_bytes())),
        _ => return false,
    };
    match (c, ord) {
        (_, None) => false,
        (Cmp::Eq, Some(o)) => o == Equal,
        (Cmp::Lt, Some(o)) => o == Less,
        (Cmp::Le, Some(o)) => o != Greater,
        (Cmp::Gt, Some(o)) => o == Greater,
        (Cmp::Ge, Some(o)) => o != Less,
    }
}

pub fn append(s: &mut Subst, args: &[T]) -> Result<bool, String> {
    if args.len() < 2 { return Err("append with fewer than two arguments".into()); }
    let mut elems = vec![];
    for a in &args[..args.len() - 1] {
        let v = s.walk(a);
        match &v {
            T::Var(..) => return Err("append with an unbound input".into()),
            // `$_` is a non-list argument: it is an element of the result like any other
            T::Anon => elems.push(T::Anon),
            T::Func(..) => return Err("append with a function input".into()),
            T::List(..) => elems.extend(list_elements(s, &v)?),
            _ => elems.push(v.clone()),
        }
    }
    let out = T::List(elems, None);
    Ok(s.unify(&args[args.len() - 1], &out))
}

pub fn count(s: &mut Subst, l: &T, o: &T) -> Result<bool, String> {
    let v = s.walk(l);
    if !matches!(v, T::List(..)) { return Err("count of a non-list".into()); }
    let n = list_elements(s, &v)?.len() as i64;
    Ok(s.unify(o, &T::Int(n)))
}

pub fn filter(s: &mut Subst, f: &T, l: &T, o: &T, include: bool) -> Result<bool, String> {
    let v = s.walk(l);
    if !matches!(v, T::List(..)) { return Err("filter of a non-list".into()); }
    let elems = list_elements(s, &v)?;
    let mut keep = vec![];
    for e in elems {
        let mark = s.mark();
        let m = s.unify(f, &e);
        s.undo(mark);
        if s.occurs_needed { return Err("occurs check needed".into()); }
        if m == include { keep.push(e); }
    }
    Ok(s.unify(o, &T::List(keep, None)))
}

pub fn functor(s: &mut Subst, args: &[T]) -> Result<bool, String> {
    if args.len() < 2 || args.len() > 3 { return Err("functor with other than 2 or 3 arguments".into()); }
    let (name, arity) = match s.walk(&args[0]) { T::Cplx(f, a) => (f, a.len() as i64), _ => return Err("functor of a non-complex term".into()) };
    let ok = match s.walk(&args[1]) {
        T::Atom(p) => {
            if p.is_empty() { return Err("functor with an empty pattern".into()); }
            if let Some(prefix) = p.strip_suffix('*') { name.starts_with(prefix) } else { name == p }
        }
        v @ T::Var(..) => s.unify(&v, &T::Atom(name.clone())),
        _ => return Err("functor pattern is neither atom nor variable".into()),
    };
    if !ok { return Ok(false); }
    if args.len() == 3 { return Ok(s.unify(&args[2], &T::Int(arity))); }
    Ok(true)
}
