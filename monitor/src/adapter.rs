//! Reference value <-> suiron value, built with public constructors/variants only.
use crate::rt::*;
use std::collections::HashMap;
use suiron::*;

/// How variables get engine ids.
pub enum Ids<'a> {
    /// id 0 for every variable (knowledge-base source form).
    Zero,
    /// explicit numbering (nonzero), extended on demand.
    Map(&'a mut VarIds),
}

#[derive(Default, Clone, Debug)]
pub struct VarIds { pub map: HashMap<(String, u32), usize>, pub next: usize }
impl VarIds {
    pub fn new() -> VarIds { VarIds { map: HashMap::new(), next: 1 } }
    pub fn id(&mut self, n: &str, i: u32) -> usize {
        if let Some(x) = self.map.get(&(n.to_string(), i)) { return *x; }
        let id = self.next; self.next += 1;
        self.map.insert((n.to_string(), i), id);
        id
    }
    pub fn name_of(&self, id: usize) -> Option<(String, u32)> {
        self.map.iter().find(|(_, v)| **v == id).map(|(k, _)| k.clone())
    }
}

pub fn empty_list() -> Unifiable {
    Unifiable::SLinkedList { term: Box::new(Unifiable::Nil), next: Box::new(Unifiable::Nil), count: 0, tail_var: false }
}

fn node(term: Unifiable, next: Unifiable, count: usize, tail_var: bool) -> Unifiable {
    Unifiable::SLinkedList { term: Box::new(term), next: Box::new(next), count, tail_var }
}

pub fn to_su(t: &T, ids: &mut Ids) -> Unifiable {
    match t {
        T::Atom(s) => Unifiable::Atom(s.clone()),
        T::Int(i) => Unifiable::SInteger(*i),
        T::Float(f) => Unifiable::SFloat(*f),
        T::Var(n, i) => {
            let id = match ids { Ids::Zero => 0, Ids::Map(m) => m.id(n, *i) };
            Unifiable::LogicVar { id, name: n.clone() }
        }
        T::Anon => Unifiable::Anonymous,
        T::Cplx(f, a) => {
            let mut v = vec![Unifiable::Atom(f.clone())];
            for x in a { v.push(to_su(x, ids)); }
            Unifiable::SComplex(v)
        }
        T::Func(f, a) => Unifiable::SFunction { name: f.clone(), terms: a.iter().map(|x| to_su(x, ids)).collect() },
        T::List(e, tl) => {
            // the node layout parse_linked_list produces: E terminator, optional tail node
            // (tail_var = true) directly before it, counts = number of nodes to the end.
            let elems: Vec<Unifiable> = e.iter().map(|x| to_su(x, ids)).collect();
            let mut cur = empty_list();
            let mut count = 0usize;
            if let Some(t) = tl {
                count += 1;
                cur = node(to_su(t, ids), cur, count, true);
            }
            for x in elems.into_iter().rev() {
                count += 1;
                cur = node(x, cur, count, false);
            }
            cur
        }
    }
}

pub fn to_su_zero(t: &T) -> Unifiable { to_su(t, &mut Ids::Zero) }

/// Read an engine value back structurally. A tail node whose term is itself a list is read
/// as the spliced list. Malformed node chains are read leniently (C15 checks layout).
pub fn from_su(u: &Unifiable) -> T {
    match u {
        Unifiable::Nil => T::Atom("<Nil>".into()),
        Unifiable::Anonymous => T::Anon,
        Unifiable::Atom(s) => T::Atom(s.clone()),
        Unifiable::SFloat(f) => T::Float(*f),
        Unifiable::SInteger(i) => T::Int(*i),
        Unifiable::LogicVar { id, name } => T::Var(name.clone(), *id as u32),
        Unifiable::SComplex(v) => {
            let f = match v.first() { Some(Unifiable::Atom(s)) => s.clone(), Some(o) => format!("<{}>", o), None => "<empty>".into() };
            T::Cplx(f, v.iter().skip(1).map(from_su).collect())
        }
        Unifiable::SFunction { name, terms } => T::Func(name.clone(), terms.iter().map(from_su).collect()),
        Unifiable::SLinkedList { .. } => {
            let mut elems = vec![];
            let mut tail = None;
            let mut cur = u;
            while let Unifiable::SLinkedList { term, next, tail_var, .. } = cur {
                if **term == Unifiable::Nil { break; }
                if *tail_var { tail = Some(from_su(term)); break; }
                elems.push(from_su(term));
                cur = next;
            }
            mk_list(elems, tail)
        }
    }
}

/// Layout well-formedness of an engine list (C15): returns a description of the first defect.
pub fn list_defect(u: &Unifiable) -> Option<String> {
    let mut cur = u;
    let mut pos = 0;
    loop {
        match cur {
            Unifiable::SLinkedList { term, next, count, tail_var } => {
                if **term == Unifiable::Nil {
                    // must be exactly E
                    if **next != Unifiable::Nil || *count != 0 || *tail_var {
                        return Some(format!("terminator at node {} is not (Nil, Nil, 0, false): next={:?} count={} tail_var={}", pos, next, count, tail_var));
                    }
                    return None;
                }
                let next_count = match &**next {
                    Unifiable::SLinkedList { count: c, .. } => *c,
                    other => return Some(format!("node {} is followed by {:?} instead of a list node", pos, other)),
                };
                if *count != next_count + 1 {
                    return Some(format!("node {} has count {} but next has {}", pos, count, next_count));
                }
                if *tail_var {
                    if let Unifiable::SLinkedList { term: t2, .. } = &**next {
                        if **t2 != Unifiable::Nil { return Some(format!("tail_var node {} is not the last node", pos)); }
                    }
                }
                if let Some(d) = nested_defect(term) { return Some(format!("element {}: {}", pos, d)); }
                cur = next;
                pos += 1;
            }
            other => return Some(format!("list chain reaches {:?}", other)),
        }
    }
}

fn nested_defect(u: &Unifiable) -> Option<String> {
    match u {
        Unifiable::SLinkedList { .. } => list_defect(u),
        Unifiable::SComplex(v) => v.iter().find_map(nested_defect),
        Unifiable::SFunction { terms, .. } => terms.iter().find_map(nested_defect),
        Unifiable::Nil => Some("Nil used as a term".into()),
        _ => None,
    }
}

/// Any list anywhere inside a value must be well formed.
pub fn value_defect(u: &Unifiable) -> Option<String> { nested_defect(u) }

// ------------------------------------------------------------------ goals and programs

fn bip(name: &str, terms: Option<Vec<Unifiable>>) -> Goal {
    Goal::BuiltInGoal(BuiltInPredicate::new(name.to_string(), terms))
}

pub fn goal_to_su(g: &G, ids: &mut Ids) -> Goal {
    let mut tv = |v: &Vec<T>, ids: &mut Ids| v.iter().map(|t| to_su(t, ids)).collect::<Vec<_>>();
    match g {
        G::Call(n, a) => {
            let mut v = vec![Unifiable::Atom(n.clone())];
            v.extend(tv(a, ids));
            Goal::ComplexGoal(Unifiable::SComplex(v))
        }
        G::And(gs) => Goal::OperatorGoal(Operator::And(gs.iter().map(|g| goal_to_su(g, ids)).collect())),
        G::Or(gs) => Goal::OperatorGoal(Operator::Or(gs.iter().map(|g| goal_to_su(g, ids)).collect())),
        G::Not(g) => Goal::OperatorGoal(Operator::Not(vec![goal_to_su(g, ids)])),
        G::Unify(a, b) => bip("unify", Some(vec![to_su(a, ids), to_su(b, ids)])),
        G::Cmp(c, a, b) => bip(c.name(), Some(vec![to_su(a, ids), to_su(b, ids)])),
        G::Cut => bip("!", None),
        G::Fail => bip("fail", None),
        G::Nl => bip("nl", None),
        G::Print(a) => bip("print", Some(tv(a, ids))),
        G::PrintList(a) => bip("print_list", Some(tv(a, ids))),
        G::Append(a) => bip("append", Some(tv(a, ids))),
        G::Count(a, b) => bip("count", Some(vec![to_su(a, ids), to_su(b, ids)])),
        G::Include(a, b, c) => bip("include", Some(vec![to_su(a, ids), to_su(b, ids), to_su(c, ids)])),
        G::Exclude(a, b, c) => bip("exclude", Some(vec![to_su(a, ids), to_su(b, ids), to_su(c, ids)])),
        G::Functor(a) => bip("functor", Some(tv(a, ids))),
    }
}

pub fn clause_to_su(c: &Clause) -> Rule {
    let mut head = vec![Unifiable::Atom(c.name.clone())];
    for a in &c.args { head.push(to_su_zero(a)); }
    let body = match &c.body { None => Goal::Nil, Some(b) => goal_to_su(b, &mut Ids::Zero) };
    Rule { head: Unifiable::SComplex(head), body }
}

pub fn program_to_kb(p: &Program) -> KnowledgeBase {
    let mut kb = KnowledgeBase::new();
    add_rules(&mut kb, p.clauses.iter().map(clause_to_su).collect());
    kb
}

/// Read an engine goal back (for the parser properties).
pub fn goal_from_su(g: &Goal) -> Option<G> {
    Some(match g {
        Goal::ComplexGoal(Unifiable::SComplex(v)) => {
            let f = match v.first() { Some(Unifiable::Atom(s)) => s.clone(), _ => return None };
            G::Call(f, v.iter().skip(1).map(from_su).collect())
        }
        Goal::ComplexGoal(_) => return None,
        Goal::OperatorGoal(Operator::And(gs)) => G::And(gs.iter().map(goal_from_su).collect::<Option<Vec<_>>>()?),
        Goal::OperatorGoal(Operator::Or(gs)) => G::Or(gs.iter().map(goal_from_su).collect::<Option<Vec<_>>>()?),
        Goal::OperatorGoal(Operator::Not(gs)) => G::Not(Box::new(goal_from_su(gs.first()?)?)),
        Goal::OperatorGoal(Operator::Time(_)) => return None,
        Goal::BuiltInGoal(b) => {
            let t: Vec<T> = b.terms.as_ref().map(|v| v.iter().map(from_su).collect()).unwrap_or_default();
            let two = |t: &Vec<T>| if t.len() == 2 { Some((t[0].clone(), t[1].clone())) } else { None };
            let three = |t: &Vec<T>| if t.len() == 3 { Some((t[0].clone(), t[1].clone(), t[2].clone())) } else { None };
            match b.functor.as_str() {
                "!" => G::Cut, "fail" => G::Fail, "nl" => G::Nl,
                "unify" => { let (a, b) = two(&t)?; G::Unify(a, b) }
                "equal" => { let (a, b) = two(&t)?; G::Cmp(Cmp::Eq, a, b) }
                "less_than" => { let (a, b) = two(&t)?; G::Cmp(Cmp::Lt, a, b) }
                "less_than_or_equal" => { let (a, b) = two(&t)?; G::Cmp(Cmp::Le, a, b) }
                "greater_than" => { let (a, b) = two(&t)?; G::Cmp(Cmp::Gt, a, b) }
                "greater_than_or_equal" => { let (a, b) = two(&t)?; G::Cmp(Cmp::Ge, a, b) }
                "print" => G::Print(t), "print_list" => G::PrintList(t), "append" => G::Append(t),
                "count" => { let (a, b) = two(&t)?; G::Count(a, b) }
                "include" => { let (a, b, c) = three(&t)?; G::Include(a, b, c) }
                "exclude" => { let (a, b, c) = three(&t)?; G::Exclude(a, b, c) }
                "functor" => G::Functor(t),
                _ => return None,
            }
        }
        Goal::Nil => return None,
    })
}

pub fn rule_from_su(r: &Rule) -> Option<Clause> {
    let (name, args) = match &r.head {
        Unifiable::SComplex(v) => match v.first() {
            Some(Unifiable::Atom(s)) => (s.clone(), v.iter().skip(1).map(from_su).collect()),
            _ => return None,
        },
        _ => return None,
    };
    let body = match &r.body { Goal::Nil => None, g => Some(goal_from_su(g)?) };
    Some(Clause { name, args, body })
}

// ------------------------------------------------------------------ variable ids (C10)

pub fn erase_u(u: &Unifiable) -> Unifiable {
    match u {
        Unifiable::LogicVar { name, .. } => Unifiable::LogicVar { id: 0, name: name.clone() },
        Unifiable::SComplex(v) => Unifiable::SComplex(v.iter().map(erase_u).collect()),
        Unifiable::SFunction { name, terms } => Unifiable::SFunction { name: name.clone(), terms: terms.iter().map(erase_u).collect() },
        Unifiable::SLinkedList { term, next, count, tail_var } =>
            Unifiable::SLinkedList { term: Box::new(erase_u(term)), next: Box::new(erase_u(next)), count: *count, tail_var: *tail_var },
        x => x.clone(),
    }
}

pub fn erase_goal(g: &Goal) -> Goal {
    match g {
        Goal::ComplexGoal(u) => Goal::ComplexGoal(erase_u(u)),
        Goal::BuiltInGoal(b) => Goal::BuiltInGoal(BuiltInPredicate { functor: b.functor.clone(), terms: b.terms.as_ref().map(|v| v.iter().map(erase_u).collect()) }),
        Goal::OperatorGoal(op) => Goal::OperatorGoal(match op {
            Operator::And(v) => Operator::And(v.iter().map(erase_goal).collect()),
            Operator::Or(v) => Operator::Or(v.iter().map(erase_goal).collect()),
            Operator::Not(v) => Operator::Not(v.iter().map(erase_goal).collect()),
            Operator::Time(v) => Operator::Time(v.iter().map(erase_goal).collect()),
        }),
        Goal::Nil => Goal::Nil,
    }
}

pub fn erase_rule(r: &Rule) -> Rule { Rule { head: erase_u(&r.head), body: erase_goal(&r.body) } }

/// (name, id) of every variable occurrence, in order.
pub fn var_occurrences_u(u: &Unifiable, out: &mut Vec<(String, usize)>) {
    match u {
        Unifiable::LogicVar { id, name } => out.push((name.clone(), *id)),
        Unifiable::SComplex(v) => for x in v { var_occurrences_u(x, out) },
        Unifiable::SFunction { terms, .. } => for x in terms { var_occurrences_u(x, out) },
        Unifiable::SLinkedList { term, next, .. } => { var_occurrences_u(term, out); var_occurrences_u(next, out); }
        _ => {}
    }
}

pub fn var_occurrences_goal(g: &Goal, out: &mut Vec<(String, usize)>) {
    match g {
        Goal::ComplexGoal(u) => var_occurrences_u(u, out),
        Goal::BuiltInGoal(b) => if let Some(t) = &b.terms { for x in t { var_occurrences_u(x, out) } },
        Goal::OperatorGoal(Operator::And(v)) | Goal::OperatorGoal(Operator::Or(v)) | Goal::OperatorGoal(Operator::Not(v)) | Goal::OperatorGoal(Operator::Time(v)) =>
            for x in v { var_occurrences_goal(x, out) },
        Goal::Nil => {}
    }
}

pub fn var_occurrences_rule(r: &Rule, out: &mut Vec<(String, usize)>) { var_occurrences_u(&r.head, out); var_occurrences_goal(&r.body, out); }

/// The consistency part of C10 on the occurrences of one renamed clause: same name <=> same
/// id, no id 0, all ids in (before, after]. Returns a description of the first defect.
pub fn renaming_defect(occ: &[(String, usize)], before: usize, after: usize) -> Option<String> {
    for (n, id) in occ {
        if *id == 0 { return Some(format!("variable {} kept id 0", n)); }
        if *id <= before || *id > after { return Some(format!("variable {} got id {} outside the fresh range ({}, {}]", n, id, before, after)); }
    }
    for (i, (n1, id1)) in occ.iter().enumerate() {
        for (n2, id2) in &occ[i + 1..] {
            if n1 == n2 && id1 != id2 { return Some(format!("two occurrences of {} got different ids {} and {}", n1, id1, id2)); }
            if n1 != n2 && id1 == id2 { return Some(format!("different variables {} and {} share id {}", n1, n2, id1)); }
        }
    }
    None
}
