//! Reference terms, goals, programs and the independent canonical printer.
//! Shares no code with suiron.
use std::fmt::Write;

#[derive(Clone, Debug, PartialEq)]
pub enum T {
    Atom(String),
    Int(i64),
    Float(f64),
    /// name (with `$`), instance (0 = as written in source)
    Var(String, u32),
    Anon,
    Cplx(String, Vec<T>),
    /// elements, tail. In source the tail is a Var or Anon; after resolution it may be
    /// anything except a List (lists in tail position are always spliced, see `mk_list`).
    List(Vec<T>, Option<Box<T>>),
    Func(String, Vec<T>),
}

pub fn atom(s: &str) -> T { T::Atom(s.to_string()) }
pub fn var(s: &str) -> T { T::Var(s.to_string(), 0) }
pub fn cplx(f: &str, a: Vec<T>) -> T { T::Cplx(f.to_string(), a) }
pub fn list(e: Vec<T>) -> T { T::List(e, None) }
pub fn func(f: &str, a: Vec<T>) -> T { T::Func(f.to_string(), a) }

/// List constructor that keeps the normal form (a list tail is spliced).
pub fn mk_list(mut elems: Vec<T>, tail: Option<T>) -> T {
    // a "list" of no elements and a tail is the tail itself
    if elems.is_empty() { if let Some(t) = tail { return t; } return T::List(elems, None); }
    match tail {
        None => T::List(elems, None),
        Some(T::List(e2, t2)) => { elems.extend(e2); T::List(elems, t2) }
        Some(t) => T::List(elems, Some(Box::new(t))),
    }
}

impl T {
    pub fn is_var(&self) -> bool { matches!(self, T::Var(..)) }
    pub fn size(&self) -> usize {
        match self {
            T::Cplx(_, a) | T::Func(_, a) => 1 + a.iter().map(|t| t.size()).sum::<usize>(),
            T::List(e, t) => 1 + e.iter().map(|t| t.size()).sum::<usize>() + t.as_ref().map_or(0, |t| t.size()),
            _ => 1,
        }
    }
    pub fn has_var(&self) -> bool {
        match self {
            T::Var(..) => true,
            T::Cplx(_, a) | T::Func(_, a) => a.iter().any(|t| t.has_var()),
            T::List(e, t) => e.iter().any(|t| t.has_var()) || t.as_ref().map_or(false, |t| t.has_var()),
            _ => false,
        }
    }
    pub fn has_anon(&self) -> bool {
        match self {
            T::Anon => true,
            T::Cplx(_, a) | T::Func(_, a) => a.iter().any(|t| t.has_anon()),
            T::List(e, t) => e.iter().any(|t| t.has_anon()) || t.as_ref().map_or(false, |t| t.has_anon()),
            _ => false,
        }
    }
    pub fn has_func(&self) -> bool {
        match self {
            T::Func(..) => true,
            T::Cplx(_, a) => a.iter().any(|t| t.has_func()),
            T::List(e, t) => e.iter().any(|t| t.has_func()) || t.as_ref().map_or(false, |t| t.has_func()),
            _ => false,
        }
    }
    pub fn vars(&self, out: &mut Vec<(String, u32)>) {
        match self {
            T::Var(n, i) => { if !out.iter().any(|(a, b)| a == n && b == i) { out.push((n.clone(), *i)); } }
            T::Cplx(_, a) | T::Func(_, a) => for t in a { t.vars(out) },
            T::List(e, t) => { for x in e { x.vars(out) } if let Some(t) = t { t.vars(out) } }
            _ => {}
        }
    }
    /// Apply f to every variable.
    pub fn map_vars(&self, f: &mut dyn FnMut(&str, u32) -> T) -> T {
        match self {
            T::Var(n, i) => f(n, *i),
            T::Cplx(g, a) => T::Cplx(g.clone(), a.iter().map(|t| t.map_vars(f)).collect()),
            T::Func(g, a) => T::Func(g.clone(), a.iter().map(|t| t.map_vars(f)).collect()),
            T::List(e, t) => mk_list(e.iter().map(|t| t.map_vars(f)).collect(), t.as_ref().map(|t| t.map_vars(f))),
            x => x.clone(),
        }
    }
    pub fn rename_inst(&self, inst: u32) -> T { self.map_vars(&mut |n, _| T::Var(n.to_string(), inst)) }
}

/// Structural equality where NaN equals NaN and -0.0 differs from 0.0 only by `==` (i.e. equal).
pub fn same(a: &T, b: &T) -> bool {
    match (a, b) {
        (T::Float(x), T::Float(y)) => x == y || (x.is_nan() && y.is_nan()),
        (T::Cplx(f, x), T::Cplx(g, y)) | (T::Func(f, x), T::Func(g, y)) =>
            f == g && x.len() == y.len() && x.iter().zip(y).all(|(p, q)| same(p, q)),
        (T::List(e1, t1), T::List(e2, t2)) =>
            e1.len() == e2.len() && e1.iter().zip(e2).all(|(p, q)| same(p, q)) &&
            match (t1, t2) { (None, None) => true, (Some(p), Some(q)) => same(p, q), _ => false },
        _ => a == b,
    }
}
pub fn same_vec(a: &[T], b: &[T]) -> bool { a.len() == b.len() && a.iter().zip(b).all(|(p, q)| same(p, q)) }

/// Rename variables by first occurrence to `$_G<k>` (instance 0): "equal up to renaming of
/// unbound variables" becomes plain `same`.
pub fn canon_vars(ts: &[T]) -> Vec<T> {
    let mut seen: Vec<(String, u32)> = vec![];
    ts.iter().map(|t| t.map_vars(&mut |n, i| {
        let k = match seen.iter().position(|(a, b)| a == n && *b == i) {
            Some(k) => k,
            None => { seen.push((n.to_string(), i)); seen.len() - 1 }
        };
        T::Var(format!("$_G{}", k), 0)
    })).collect()
}

// ---------------------------------------------------------------- goals / programs

#[derive(Clone, Copy, Debug, PartialEq, Eq, Hash)]
pub enum Cmp { Eq, Lt, Le, Gt, Ge }
impl Cmp {
    pub const ALL: [Cmp; 5] = [Cmp::Eq, Cmp::Lt, Cmp::Le, Cmp::Gt, Cmp::Ge];
    pub fn name(self) -> &'static str {
        match self { Cmp::Eq => "equal", Cmp::Lt => "less_than", Cmp::Le => "less_than_or_equal",
                     Cmp::Gt => "greater_than", Cmp::Ge => "greater_than_or_equal" }
    }
    pub fn infix(self) -> &'static str {
        match self { Cmp::Eq => "==", Cmp::Lt => "<", Cmp::Le => "<=", Cmp::Gt => ">", Cmp::Ge => ">=" }
    }
}

#[derive(Clone, Debug, PartialEq)]
pub enum G {
    Call(String, Vec<T>),
    And(Vec<G>),
    Or(Vec<G>),
    Not(Box<G>),
    Unify(T, T),
    Cmp(Cmp, T, T),
    Cut,
    Fail,
    Nl,
    Print(Vec<T>),
    PrintList(Vec<T>),
    Append(Vec<T>),
    Count(T, T),
    Include(T, T, T),
    Exclude(T, T, T),
    Functor(Vec<T>),
}

impl G {
    pub fn map_terms(&self, f: &mut dyn FnMut(&T) -> T) -> G {
        let mv = |v: &Vec<T>, f: &mut dyn FnMut(&T) -> T| v.iter().map(|t| f(t)).collect::<Vec<T>>();
        match self {
            G::Call(n, a) => G::Call(n.clone(), mv(a, f)),
            G::And(gs) => G::And(gs.iter().map(|g| g.map_terms(f)).collect()),
            G::Or(gs) => G::Or(gs.iter().map(|g| g.map_terms(f)).collect()),
            G::Not(g) => G::Not(Box::new(g.map_terms(f))),
            G::Unify(a, b) => G::Unify(f(a), f(b)),
            G::Cmp(c, a, b) => G::Cmp(*c, f(a), f(b)),
            G::Cut => G::Cut, G::Fail => G::Fail, G::Nl => G::Nl,
            G::Print(a) => G::Print(mv(a, f)),
            G::PrintList(a) => G::PrintList(mv(a, f)),
            G::Append(a) => G::Append(mv(a, f)),
            G::Count(a, b) => G::Count(f(a), f(b)),
            G::Include(a, b, c) => G::Include(f(a), f(b), f(c)),
            G::Exclude(a, b, c) => G::Exclude(f(a), f(b), f(c)),
            G::Functor(a) => G::Functor(mv(a, f)),
        }
    }
    pub fn rename_inst(&self, inst: u32) -> G { self.map_terms(&mut |t| t.rename_inst(inst)) }
    pub fn visit(&self, f: &mut dyn FnMut(&G)) {
        f(self);
        match self {
            G::And(gs) | G::Or(gs) => for g in gs { g.visit(f) },
            G::Not(g) => g.visit(f),
            _ => {}
        }
    }
    pub fn contains(&self, p: &dyn Fn(&G) -> bool) -> bool {
        let mut hit = false;
        self.visit(&mut |g| if p(g) { hit = true });
        hit
    }
    pub fn terms(&self) -> Vec<T> {
        let mut out = vec![];
        self.visit(&mut |g| match g {
            G::Call(_, a) | G::Print(a) | G::PrintList(a) | G::Append(a) | G::Functor(a) => out.extend(a.iter().cloned()),
            G::Unify(a, b) | G::Cmp(_, a, b) | G::Count(a, b) => { out.push(a.clone()); out.push(b.clone()); }
            G::Include(a, b, c) | G::Exclude(a, b, c) => { out.push(a.clone()); out.push(b.clone()); out.push(c.clone()); }
            _ => {}
        });
        out
    }
}

#[derive(Clone, Debug, PartialEq)]
pub struct Clause { pub name: String, pub args: Vec<T>, pub body: Option<G> }

impl Clause {
    pub fn key(&self) -> (String, usize) { (self.name.clone(), self.args.len()) }
    pub fn vars(&self) -> Vec<(String, u32)> {
        let mut v = vec![];
        for a in &self.args { a.vars(&mut v); }
        if let Some(b) = &self.body { for t in b.terms() { t.vars(&mut v); } }
        v
    }
    pub fn map_terms(&self, f: &mut dyn FnMut(&T) -> T) -> Clause {
        Clause { name: self.name.clone(), args: self.args.iter().map(|t| f(t)).collect(),
                 body: self.body.as_ref().map(|b| b.map_terms(f)) }
    }
}

#[derive(Clone, Debug, PartialEq)]
pub struct Program { pub clauses: Vec<Clause> }

impl Program {
    pub fn clauses_for<'a>(&'a self, name: &'a str, arity: usize) -> impl Iterator<Item = &'a Clause> + 'a {
        self.clauses.iter().filter(move |c| c.name == name && c.args.len() == arity)
    }
}

// ---------------------------------------------------------------- canonical printer

pub fn fmt_float(f: f64) -> String { format!("{}", f) }

pub fn show(t: &T) -> String { let mut s = String::new(); show_into(t, &mut s); s }

pub fn show_into(t: &T, o: &mut String) {
    match t {
        T::Atom(s) => o.push_str(s),
        T::Int(i) => { let _ = write!(o, "{}", i); }
        T::Float(f) => o.push_str(&fmt_float(*f)),
        T::Var(n, 0) => o.push_str(n),
        T::Var(n, i) => { let _ = write!(o, "{}_{}", n, i); }
        T::Anon => o.push_str("$_"),
        T::Cplx(f, a) | T::Func(f, a) => {
            o.push_str(f); o.push('(');
            for (i, x) in a.iter().enumerate() { if i > 0 { o.push_str(", "); } show_into(x, o); }
            o.push(')');
        }
        T::List(e, tl) => {
            o.push('[');
            for (i, x) in e.iter().enumerate() { if i > 0 { o.push_str(", "); } show_into(x, o); }
            if let Some(t) = tl {
                if !e.is_empty() { o.push_str(" | "); }
                show_into(t, o);
            }
            o.push(']');
        }
    }
}

pub fn show_args(a: &[T]) -> String { a.iter().map(show).collect::<Vec<_>>().join(", ") }

/// Canonical (named-form) text of a goal, as the engine's Display is documented to print it.
pub fn show_goal(g: &G) -> String {
    match g {
        G::Call(n, a) => format!("{}({})", n, show_args(a)),
        G::And(gs) => gs.iter().map(show_goal).collect::<Vec<_>>().join(", "),
        G::Or(gs) => gs.iter().map(show_goal).collect::<Vec<_>>().join("; "),
        G::Not(g) => format!("not({})", show_goal(g)),
        G::Unify(a, b) => format!("{} = {}", show(a), show(b)),
        G::Cmp(c, a, b) => format!("{}({}, {})", c.name(), show(a), show(b)),
        G::Cut => "!".into(), G::Fail => "fail".into(), G::Nl => "nl".into(),
        G::Print(a) => format!("print({})", show_args(a)),
        G::PrintList(a) => format!("print_list({})", show_args(a)),
        G::Append(a) => format!("append({})", show_args(a)),
        G::Count(a, b) => format!("count({}, {})", show(a), show(b)),
        G::Include(a, b, c) => format!("include({}, {}, {})", show(a), show(b), show(c)),
        G::Exclude(a, b, c) => format!("exclude({}, {}, {})", show(a), show(b), show(c)),
        G::Functor(a) => format!("functor({})", show_args(a)),
    }
}

/// Source text that groups nested operators explicitly (for samples and witnesses; the
/// engine is fed constructor-built values, so this text is for humans).
pub fn show_goal_grouped(g: &G, top: bool) -> String {
    match g {
        G::And(gs) => {
            let s = gs.iter().map(|g| show_goal_grouped(g, false)).collect::<Vec<_>>().join(", ");
            if top { s } else { format!("({})", s) }
        }
        G::Or(gs) => {
            let s = gs.iter().map(|g| show_goal_grouped(g, false)).collect::<Vec<_>>().join("; ");
            if top { s } else { format!("({})", s) }
        }
        G::Not(g) => format!("not({})", show_goal_grouped(g, true)),
        g => show_goal(g),
    }
}

pub fn show_clause(c: &Clause) -> String {
    let head = format!("{}({})", c.name, show_args(&c.args));
    match &c.body { None => format!("{}.", head), Some(b) => format!("{} :- {}.", head, show_goal_grouped(b, true)) }
}

pub fn show_program(p: &Program) -> String { p.clauses.iter().map(show_clause).collect::<Vec<_>>().join(" ") }
