//! Small deterministic PRNG (splitmix64 seeding + xorshift64*). No external crates.
#[derive(Clone, Debug)]
pub struct Rng(u64);

pub fn mix(mut z: u64) -> u64 {
    z = z.wrapping_add(0x9E3779B97F4A7C15);
    z = (z ^ (z >> 30)).wrapping_mul(0xBF58476D1CE4E5B9);
    z = (z ^ (z >> 27)).wrapping_mul(0x94D049BB133111EB);
    z ^ (z >> 31)
}

impl Rng {
    pub fn new(seed: u64) -> Rng { let s = mix(seed ^ 0xD1B54A32D192ED03); Rng(if s == 0 { 1 } else { s }) }
    /// Independent stream for (seed, stream, index).
    pub fn for_case(seed: u64, stream: u64, idx: u64) -> Rng {
        Rng::new(mix(seed).wrapping_add(mix(stream.wrapping_mul(0x9E37) ^ 0xABCD)).wrapping_add(mix(idx ^ 0x5555_5555)))
    }
    pub fn next(&mut self) -> u64 {
        let mut x = self.0;
        x ^= x >> 12; x ^= x << 25; x ^= x >> 27;
        self.0 = x;
        x.wrapping_mul(0x2545F4914F6CDD1D)
    }
    pub fn below(&mut self, n: usize) -> usize { if n == 0 { 0 } else { (self.next() >> 11) as usize % n } }
    pub fn range(&mut self, lo: usize, hi: usize) -> usize { lo + self.below(hi - lo + 1) }
    pub fn chance(&mut self, num: usize, den: usize) -> bool { self.below(den) < num }
    pub fn pick<'a, T>(&mut self, v: &'a [T]) -> &'a T { &v[self.below(v.len())] }
    pub fn shuffle<T>(&mut self, v: &mut Vec<T>) {
        for i in (1..v.len()).rev() { let j = self.below(i + 1); v.swap(i, j); }
    }
}

pub fn hash_str(s: &str) -> u64 {
    let mut h: u64 = 0xcbf29ce484222325;
    for b in s.bytes() { h ^= b as u64; h = h.wrapping_mul(0x100000001b3); }
    mix(h)
}
