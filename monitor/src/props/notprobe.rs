//! C03, direct probe: a `not(G)` solution node is built with the public constructor over a
//! substitution set produced by engine unifications, and asked twice.
use crate::adapter::*;
use crate::core::*;
use crate::gen_prog::*;
use crate::json;
use crate::props::unify::same_bindings;
use crate::rinterp;
use crate::rng::*;
use crate::rt::*;
use std::rc::Rc;
use suiron::*;

pub struct NotProbe { fam: NotFamily, bindings: Vec<Vec<(T, T)>> }

impl NotProbe {
    pub fn new() -> NotProbe {
        let (x, y, z) = (var("$X"), var("$Y"), var("$Z"));
        let bindings = vec![
            vec![], vec![(x.clone(), T::Int(1))], vec![(x.clone(), T::Int(2))], vec![(x.clone(), T::Float(1.0))], vec![(x.clone(), atom("a"))],
            vec![(x.clone(), y.clone())], vec![(x.clone(), y.clone()), (y.clone(), T::Int(2))], vec![(z.clone(), T::Int(3)), (x.clone(), cplx("f", vec![z.clone()]))],
            vec![(y.clone(), T::Int(9)), (z.clone(), list(vec![T::Int(2), T::Int(3)]))],
        ];
        NotProbe { fam: NotFamily::new(), bindings }
    }
}

impl Workload for NotProbe {
    fn total(&self) -> u64 { (self.fam.gs.len() * self.bindings.len()) as u64 }
    fn rule(&self) -> String {
        format!("direct probe: for each of the {} goals G of the not-focused family and each of {} substitution sets produced by engine unifications (X unbound, bound to 1 / 2 / 1.0 / a, aliased to Y, bound to a term holding another bound variable, unrelated bindings) a solution node for not(G) is made with make_solution_node() and asked twice; oracle: the first request succeeds iff the reference finds no answer of G under those bindings, a success returns a set with exactly the bindings of the input set, and the second request returns None either way; non-trivial when the substitution set is not empty; distinct by goal and bindings",
                self.fam.gs.len(), self.bindings.len())
    }
    fn exhaustive_part(&self) -> Option<String> { Some(format!("all {} goal x bindings combinations of the not probe", self.total())) }
    fn describe(&mut self, idx: u64) -> String {
        let g = &self.fam.gs[idx as usize % self.fam.gs.len()];
        let b = &self.bindings[idx as usize / self.fam.gs.len()];
        json::obj(&[("goal", json::esc(&format!("not({})", show_goal_grouped(g, true)))), ("bindings", json::esc(&b.iter().map(|(a, c)| format!("{} = {}", show(a), show(c))).collect::<Vec<_>>().join(", ")))])
    }
    fn run(&mut self, idx: u64) -> Outcome {
        let g = self.fam.gs[idx as usize % self.fam.gs.len()].clone();
        let b = self.bindings[idx as usize / self.fam.gs.len()].clone();
        let sample = self.describe(idx);
        let mut out = Outcome::new(hash_str(&sample));
        out.sample = sample.clone();
        out.nontrivial = !b.is_empty();
        // reference: is there an answer of G under the bindings?  q :- b1, ..., bn, G.
        let mut body: Vec<G> = b.iter().map(|(a, c)| G::Unify(a.clone(), c.clone())).collect();
        body.push(g.clone());
        let mut clauses = self.fam.base_clauses();
        clauses.push(Clause { name: "probe".into(), args: vec![], body: Some(G::And(body)) });
        let prog = Program { clauses };
        let has_answer = match rinterp::solve(&prog, "probe", &[], 20_000, 1) {
            Ok(r) => r.stats.answers > 0,
            Err(_) => { out.evals = 0; out.verdict = Verdict::Skipped("outside the statements' domain"); return out; }
        };
        let mut kbp = Program { clauses: self.fam.base_clauses() };
        kbp.clauses.push(Clause { name: "dummy".into(), args: vec![], body: None });
        let kb = program_to_kb(&kbp);
        let wit = |kind: &str, d: &str| json::obj(&[("kind", json::esc(kind)), ("case", sample.clone()), ("detail", json::esc(d))]);
        let r = guarded(|| {
            let base = make_base_node(Rc::new(make_query(vec![Unifiable::Atom("dummy".into())])), &kb);
            let mut ids = VarIds::new();
            for v in ["$X", "$Y", "$Z"] { ids.id(v, 0); }
            set_var_id(10);
            let mut ss: Rc<SubstitutionSet> = Rc::new(vec![]);
            for (a, c) in &b {
                let (ua, uc) = (to_su(a, &mut Ids::Map(&mut ids)), to_su(c, &mut Ids::Map(&mut ids)));
                ss = ua.unify(&uc, &ss).expect("binding step");
            }
            let goal = goal_to_su(&G::Not(Box::new(g.clone())), &mut Ids::Map(&mut ids));
            let node = make_solution_node(Rc::new(goal), &kb, Rc::clone(&ss), base);
            let r1 = next_solution(Rc::clone(&node));
            let r2 = next_solution(Rc::clone(&node));
            let r3 = next_solution(Rc::clone(&node));
            (ss, r1, r2, r3)
        });
        let _ = take_output();
        let (ss, r1, r2, r3) = match r { Ok(x) => x, Err(p) => { out.violate(format!("probe-panic|{}", sample), wit("the engine panicked", &format!("{} at {}", p.msg, p.loc))); return out; } };
        out.evals = 3;
        if r1.is_some() == has_answer {
            out.violate(format!("probe-outcome|{}", sample), wit("not(G) succeeded although G has an answer, or failed although it has none", &format!("G has an answer: {}; not(G) returned {}", has_answer, if r1.is_some() { "a solution" } else { "None" })));
            return out;
        }
        if let Some(s1) = &r1 {
            if !same_bindings(s1, &ss) { out.violate(format!("probe-bindings|{}", sample), wit("not(G) succeeded but the bindings are not those it was called with", &format!("before: {} after: {}", format_ss(&ss).replace('\n', " "), format_ss(s1).replace('\n', " ")))); return out; }
        }
        if r2.is_some() || r3.is_some() {
            out.violate(format!("probe-twice|{}", sample), wit("a second request on the not(G) node returned a solution", if r1.is_some() { "first request: solution" } else { "first request: None" }));
            return out;
        }
        out.count(if has_answer { "probe_not_failed" } else { "probe_not_succeeded" }, 1);
        out
    }
}
