//! C01-C05, C11: history + reference-model monitors over the search API.
use crate::adapter::*;
use crate::core::*;
use crate::gen_prog::*;
use crate::json;
use crate::rinterp::{self, Ev, RefResult};
use crate::rng::*;
use crate::rt::*;
use std::rc::Rc;
use suiron::*;

pub const MAX_ANSWERS: usize = 40;

#[derive(Debug, Clone)]
pub struct EngineRun {
    pub events: Vec<Ev>,
    /// the search reported None (as opposed to stopping at the answer cap)
    pub exhausted: bool,
    pub panic: Option<Panic>,
    /// (captured output, returned Some) for each request made after the first None
    pub reasks: Vec<(String, bool)>,
    /// the engine's own Display of every resolved query argument, per answer
    pub shown: Vec<Vec<String>>,
}

pub fn merge_outs(evs: &[Ev]) -> Vec<Ev> {
    let mut out: Vec<Ev> = vec![];
    for e in evs {
        match (out.last_mut(), e) {
            (Some(Ev::Out(a)), Ev::Out(b)) => a.push_str(b),
            (_, Ev::Out(b)) if b.is_empty() => {}
            _ => out.push(e.clone()),
        }
    }
    out
}

pub fn query_goal(c: &Case) -> Goal {
    let mut terms = vec![Unifiable::Atom(c.qname.clone())];
    for a in &c.qargs { terms.push(to_su_zero(a)); }
    make_query(terms)
}

/// Drive the engine with next_solution until None (or the answer cap), then re-ask.
pub fn run_engine(c: &Case, kb: &KnowledgeBase, max_answers: usize, reasks: usize) -> EngineRun {
    let query = match guarded(|| Rc::new(query_goal(c))) { Ok(q) => q, Err(p) => { return EngineRun { events: vec![], exhausted: false, panic: Some(p), reasks: vec![], shown: vec![] }; } };
    run_engine_with(&query, kb, max_answers, reasks)
}

/// Same, with a query object that already exists (possibly used for an earlier search).
pub fn run_engine_with(query: &Rc<Goal>, kb: &KnowledgeBase, max_answers: usize, reasks: usize) -> EngineRun {
    let mut run = EngineRun { events: vec![], exhausted: false, panic: None, reasks: vec![], shown: vec![] };
    let _ = take_output();
    let query = Rc::clone(query);
    let sn = make_base_node(Rc::clone(&query), kb);
    let mut answers = 0;
    loop {
        let r = guarded(|| next_solution(Rc::clone(&sn)));
        let o = take_output();
        if !o.is_empty() { run.events.push(Ev::Out(o)); }
        match r {
            Err(p) => { run.panic = Some(p); return run; }
            Ok(None) => { run.exhausted = true; break; }
            Ok(Some(ss)) => {
                match guarded(|| query.replace_variables(&ss)) {
                    Ok(u) => { if let Unifiable::SComplex(ts) = &u { run.shown.push(ts.iter().skip(1).map(|t| format!("{}", t)).collect()); } match from_su(&u) { T::Cplx(_, args) => run.events.push(Ev::Ans(args)), other => run.events.push(Ev::Ans(vec![other])) } },
                    Err(p) => { run.panic = Some(p); return run; }
                }
                answers += 1;
                if answers >= max_answers { break; }
            }
        }
    }
    if run.exhausted {
        for _ in 0..reasks {
            let r = guarded(|| next_solution(Rc::clone(&sn)));
            let o = take_output();
            match r {
                Err(p) => { run.panic = Some(p); return run; }
                Ok(x) => run.reasks.push((o, x.is_some())),
            }
        }
    }
    run
}

pub fn show_events(evs: &[Ev]) -> String {
    evs.iter().map(|e| match e { Ev::Out(s) => format!("out{:?}", s), Ev::Ans(a) => format!("({})", show_args(&canon_vars(a))) }).collect::<Vec<_>>().join(" ")
}

pub fn events_equal(a: &[Ev], b: &[Ev]) -> bool {
    a.len() == b.len() && a.iter().zip(b).all(|(x, y)| match (x, y) {
        (Ev::Out(p), Ev::Out(q)) => p == q,
        (Ev::Ans(p), Ev::Ans(q)) => same_vec(&canon_vars(p), &canon_vars(q)),
        _ => false,
    })
}

/// Compare engine events with reference events. `with_output` false drops Out events
/// (properties that do not speak about output).
pub fn compare(refr: &RefResult, eng: &EngineRun, with_output: bool) -> Result<(), String> {
    let f = |v: &[Ev]| -> Vec<Ev> { let m = merge_outs(v); if with_output { m } else { m.into_iter().filter(|e| matches!(e, Ev::Ans(_))).collect() } };
    let mut r = f(&refr.events);
    let mut e = f(&eng.events);
    if !refr.complete {
        // reference stopped at the answer cap: compare up to and including the last answer
        while matches!(r.last(), Some(Ev::Out(_))) { r.pop(); }
        let n_ans = r.iter().filter(|x| matches!(x, Ev::Ans(_))).count();
        let mut seen = 0; let mut cut = e.len();
        for (i, x) in e.iter().enumerate() { if matches!(x, Ev::Ans(_)) { seen += 1; if seen == n_ans { cut = i + 1; break; } } }
        e.truncate(cut);
    }
    if events_equal(&r, &e) { Ok(()) } else { Err(format!("reference: {} | engine: {}", show_events(&r), show_events(&e))) }
}

fn canon_prog_sig(c: &Case) -> String {
    // name-canonical text of the whole case (each clause separately, query separately)
    let mut parts = vec![];
    for cl in &c.prog.clauses {
        let mut ts: Vec<T> = cl.args.clone();
        let body_terms = cl.body.as_ref().map(|b| b.terms()).unwrap_or_default();
        ts.extend(body_terms);
        let cv = canon_vars(&ts);
        let mut it = cv.into_iter();
        let args: Vec<T> = (0..cl.args.len()).map(|_| it.next().unwrap()).collect();
        let rest: Vec<T> = it.collect();
        let mut k = 0;
        let body = cl.body.as_ref().map(|b| b.map_terms(&mut |_| { k += 1; rest[k - 1].clone() }));
        parts.push(show_clause(&Clause { name: cl.name.clone(), args, body }));
    }
    format!("{} ?- {}({})", parts.join(" "), c.qname, show_args(&canon_vars(&c.qargs)))
}

pub fn case_json(c: &Case) -> String {
    json::obj(&[("program", json::strs(&c.prog.clauses.iter().map(show_clause).collect::<Vec<_>>())),
                ("query", json::esc(&format!("{}({})", c.qname, show_args(&c.qargs))))])
}

fn witness(c: &Case, kind: &str, detail: &str) -> String {
    json::obj(&[("kind", json::esc(kind)), ("program", json::strs(&c.prog.clauses.iter().map(show_clause).collect::<Vec<_>>())),
                ("query", json::esc(&format!("{}({})", c.qname, show_args(&c.qargs)))), ("detail", json::esc(detail))])
}

#[derive(Clone, Copy, PartialEq, Debug)]
pub enum Which { C01, C02, C03, C04, C05, C11 }

pub struct Search { which: Which, tier: Tier, seed: u64, feat: Feat, shapes: Shapes, n_shapes: u64, n_rand: u64, shape_stride: u64, cutfam: Option<CutFamily>, n_cutfam: u64, notfam: Option<NotFamily>, n_notfam: u64, repfam: Option<RepeatFamily>, n_repfam: u64 }

impl Search {
    pub fn new(which: Which, tier: Tier, seed: u64) -> Search {
        let q = tier == Tier::Quick;
        let feat = match which {
            Which::C01 => Feat { fail: true, anon: true, builtins: true, ..Feat::default() },
            Which::C02 => Feat { cut: true, fail: true, anon: true, ..Feat::default() },
            Which::C03 => Feat { not: true, fail: true, anon: true, ..Feat::default() },
            Which::C04 => Feat { print: true, fail: true, not: true, cut: true, ..Feat::default() },
            Which::C05 => Feat { print: true, fail: true, not: true, cut: true, anon: true, builtins: true },
            Which::C11 => Feat { print: true, fail: true, not: true, cut: true, anon: true, builtins: true },
        };
        // shape alphabets per property (the bounded-exhaustive core)
        let shape_feat = match which {
            Which::C01 => Feat { fail: true, ..Feat::default() },
            Which::C02 => Feat { cut: true, fail: true, ..Feat::default() },
            Which::C03 => Feat { not: true, ..Feat::default() },
            Which::C04 => Feat { print: true, fail: true, ..Feat::default() },
            Which::C05 | Which::C11 => Feat { print: true, not: true, cut: true, fail: true, ..Feat::default() },
        };
        let (k1, k2) = if q { (3, 2) } else { (3, 3) };
        let (k1, k2) = if matches!(which, Which::C05 | Which::C11) { (if q { 2 } else { 3 }, if q { 1 } else { 2 }) } else { (k1, k2) };
        let shapes = Shapes::new(shape_feat, k1, k2);
        let full = shapes.total();
        // quick covers the shape space completely; thorough samples it when it is very large
        let cap = if q { 40_000 } else { 400_000 };
        let (n_shapes, stride) = if full <= cap { (full, 1) } else { (cap, full / cap) };
        let n_rand = match (which, q) {
            (Which::C01, true) => 100_000, (Which::C01, false) => 1_000_000,
            (Which::C11, true) => 40_000, (Which::C11, false) => 300_000,
            (Which::C05, true) => 20_000, (Which::C05, false) => 200_000, (_, true) => 120_000, (_, false) => 1_000_000,
        };
        // the cut-focused family: complete enumeration for the properties whose corpus has cuts
        let cutfam = match which { Which::C02 | Which::C05 | Which::C11 => Some(CutFamily::new(false)), Which::C04 => Some(CutFamily::new(true)), _ => None };
        let n_cutfam = cutfam.as_ref().map_or(0, |f| f.total());
        let notfam = match which { Which::C03 | Which::C05 | Which::C11 => Some(NotFamily::new()), _ => None };
        let n_notfam = notfam.as_ref().map_or(0, |f| f.total());
        let repfam = match which { Which::C01 | Which::C05 | Which::C11 => Some(RepeatFamily::new(false)), Which::C04 => Some(RepeatFamily::new(true)), _ => None };
        let n_repfam = repfam.as_ref().map_or(0, |f| f.total());
        Search { which, tier, seed, feat, shapes, n_shapes, n_rand, shape_stride: stride, cutfam, n_cutfam, notfam, n_notfam, repfam, n_repfam }
    }

    fn pick(&self, idx: u64) -> Case {
        if idx < self.n_shapes {
            let i = if self.shape_stride == 1 { idx } else { (idx * self.shape_stride + mix(self.seed ^ idx) % self.shape_stride) % self.shapes.total() };
            self.shapes.get(i)
        } else if idx < self.n_shapes + self.n_cutfam {
            self.cutfam.as_ref().unwrap().get(idx - self.n_shapes)
        } else if idx < self.n_shapes + self.n_cutfam + self.n_notfam {
            self.notfam.as_ref().unwrap().get(idx - self.n_shapes - self.n_cutfam)
        } else if idx < self.n_shapes + self.n_cutfam + self.n_notfam + self.n_repfam {
            self.repfam.as_ref().unwrap().get(idx - self.n_shapes - self.n_cutfam - self.n_notfam)
        } else {
            random_case(self.seed, 100 + self.which as u64, idx - self.n_shapes - self.n_cutfam - self.n_notfam - self.n_repfam, self.feat)
        }
    }

    fn sig(&self, kind: &str, c: &Case) -> String { format!("{}|{}", kind, canon_prog_sig(c)) }
}

fn solve_all_check(c: &Case, kb: &KnowledgeBase, refr: &RefResult, eng: &EngineRun) -> Result<(), String> {
    if !refr.complete || !eng.exhausted { return Ok(()); }
    let query = Rc::new(query_goal(c));
    let sn = make_base_node(Rc::clone(&query), kb);
    let t0 = std::time::Instant::now();
    let got = solve_all(sn);
    let ms = t0.elapsed().as_millis();
    let _ = take_output();
    // a timeout report is legitimate when a second really passed (machine stall): inconclusive
    if got.iter().any(|s| s.starts_with("Query timed out")) && ms >= 1000 { return Err(format!("STALL: solve_all really took {} ms (a stalled machine, or a search that really exceeds the limit)", ms)); }
    // independent formatter: `$Var = value` for each top-level variable argument, in order;
    // the value text is the engine's own Display of the answer that next_solution gave
    // (already checked against the reference), because rendering is C19's subject
    let mut want = vec![];
    for vals in &eng.shown {
        let mut parts = vec![];
        for (a, v) in c.qargs.iter().zip(vals) {
            if let T::Var(n, _) = a { parts.push(format!("{} = {}", n, v)); }
        }
        want.push(parts.join(", "));
    }
    let canon = |s: &str| -> String {
        // canonicalise unbound-variable tokens `$Name_<digits>` by first occurrence
        let ch: Vec<char> = s.chars().collect();
        let mut out = String::new();
        let mut seen: Vec<String> = vec![];
        let mut i = 0;
        while i < ch.len() {
            if ch[i] == '$' {
                let mut j = i + 1;
                while j < ch.len() && (ch[j].is_alphanumeric() || ch[j] == '_') { j += 1; }
                let tok: String = ch[i..j].iter().collect();
                let is_inst = tok.rfind('_').map_or(false, |p| p + 1 < tok.len() && tok[p + 1..].chars().all(|c| c.is_ascii_digit()) && p > 1);
                if is_inst {
                    let k = match seen.iter().position(|t| *t == tok) { Some(k) => k, None => { seen.push(tok.clone()); seen.len() - 1 } };
                    out.push_str(&format!("$_G{}", k));
                } else { out.push_str(&tok); }
                i = j;
            } else { out.push(ch[i]); i += 1; }
        }
        out
    };
    let got_c: Vec<String> = got.iter().map(|s| canon(s)).collect();
    let want_c: Vec<String> = want.iter().map(|s| canon(s)).collect();
    if got_c == want_c { Ok(()) } else { Err(format!("solve_all returned {:?}, expected {:?}", got, want)) }
}

impl Workload for Search {
    fn total(&self) -> u64 { self.n_shapes + self.n_cutfam + self.n_notfam + self.n_repfam + self.n_rand }
    fn describe(&mut self, idx: u64) -> String { case_json(&self.pick(idx)) }
    fn exhaustive_part(&self) -> Option<String> {
        let mut cf = if self.n_cutfam > 0 { format!(" and all {} programs of the cut-focused family", self.n_cutfam) } else { String::new() };
        if self.n_notfam > 0 { cf.push_str(&format!(" and all {} programs of the not-focused family", self.n_notfam)); }
        if self.n_repfam > 0 { cf.push_str(&format!(" and all {} programs of the repetition family", self.n_repfam)); }
        if self.shape_stride == 1 { Some(format!("all {} small program shapes over p/1, q/1 (bodies of <= 3 goals, every and/or arrangement) x 5 queries{}", self.n_shapes, cf)) } else if !cf.is_empty() { Some(cf.trim_start_matches(" and ").to_string()) } else { None }
    }
    fn rule(&self) -> String {
        let nt = match self.which {
            Which::C01 => "the reference produced >= 2 answers, or retried a later clause / disjunct after an earlier one had matched",
            Which::C02 => "the reference executed a cut while later clauses or choice points to its left were pending, or a cut was followed by failure",
            Which::C03 => "not(G) was executed and either both outcomes occurred or G had bindings to discard",
            Which::C04 => "some output was written and the search produced >= 2 answers or retried an alternative",
            Which::C05 => "the query had >= 1 answer or its program contains not/print/cut",
            Which::C11 => "the program has >= 2 clauses with variables",
        };
        format!("{} small program shapes ({}), then {} programs of the cut-focused family (complete enumeration of: multi-solution goal of 12 node shapes to the left of the cut x optional earlier generator x cut plain / closing a parenthesised group / inside a second alternative x 8 goals after the cut that reject the first solutions x 3 sets of later clauses x 4 queries incl. callers that backtrack into the call{}), then {} programs of the not-focused family (complete enumeration of: 5 goals before the not x 27 goals G over ground, non-ground (`$_`, repeated variable, list pattern) and numerically look-alike facts, conjunctions, disjunctions, nested not, unification, comparison x the not executed once or twice x 4 goals after it x 4 queries), then {} programs of the repetition family (complete enumeration of: every ordered pair of 8 goals that succeed 1-3 times, six of them without binding anything, x 4 goals after them incl. failure-driven loops x 3 sets of later clauses x 2 queries{}), then {} seeded random stratified programs (list patterns, aliasing, nested and/or, recursion templates, arithmetic, comparisons, list built-ins); cases whose reference run leaves the statements' domain or exceeds 20000 steps are discarded before the engine is called; non-trivial when {}; distinct by name-canonical program+query text",
                self.n_shapes, if self.shape_stride == 1 { "complete enumeration" } else { "strided sample of the enumeration" }, self.n_cutfam, if self.which == Which::C04 { " x print before / after the cut" } else { "" }, self.n_notfam, self.n_repfam, if self.which == Which::C04 { " x print after the first / second / both" } else { "" }, self.n_rand, nt)
    }

    fn run(&mut self, idx: u64) -> Outcome {
        let c = self.pick(idx);
        let csig = canon_prog_sig(&c);
        let mut out = Outcome::new(hash_str(&csig));
        out.sample = case_json(&c);
        let refr = match rinterp::solve(&c.prog, &c.qname, &c.qargs, 20_000, MAX_ANSWERS) {
            Ok(r) => r,
            Err(e) => {
                out.evals = 0;
                out.verdict = Verdict::Skipped(if e.starts_with("budget") { "reference budget exceeded" } else if e.contains("left open") { "cut in a parenthesised group: retry of the goals after it is left open by the statement" } else { "outside the statements' domain" });
                return out;
            }
        };
        let st = &refr.stats;
        out.count("reference_answers", st.answers);
        out.count("clause_retries", st.clause_retries);
        out.count("or_retries", st.or_retries);
        out.count("cuts_executed", st.cuts);
        out.count("cut_with_pending_clauses", st.cut_pending_clauses);
        out.count("cut_with_pending_left_choices", st.cut_pending_left);
        out.count("cut_then_fail", st.cut_then_fail);
        out.count("not_succeeded", st.not_true);
        out.count("not_failed", st.not_false);
        out.count("prints_executed", st.prints);
        let has = |p: &dyn Fn(&G) -> bool| c.prog.clauses.iter().any(|cl| cl.body.as_ref().map_or(false, |b| b.contains(p)));
        out.nontrivial = match self.which {
            Which::C01 => st.answers >= 2 || st.clause_retries + st.or_retries > 0,
            Which::C02 => st.cut_pending_clauses + st.cut_pending_left + st.cut_then_fail > 0,
            Which::C03 => st.not_true + st.not_false > 0,
            Which::C04 => st.prints > 0 && (st.answers >= 2 || st.clause_retries + st.or_retries > 0),
            Which::C05 => st.answers >= 1 || has(&|g| matches!(g, G::Not(_) | G::Print(_) | G::Cut)),
            Which::C11 => c.prog.clauses.iter().filter(|cl| !cl.vars().is_empty()).count() >= 2,
        };
        // properties with a domain restriction on what the program must contain
        match self.which {
            Which::C02 if st.cuts == 0 => { out.evals = 0; out.verdict = Verdict::Skipped("no cut executed"); return out; }
            Which::C03 if st.not_true + st.not_false == 0 => { out.evals = 0; out.verdict = Verdict::Skipped("no not executed"); return out; }
            Which::C04 if st.prints == 0 && !refr.events.iter().any(|e| matches!(e, Ev::Out(_))) => { out.evals = 0; out.verdict = Verdict::Skipped("no output written"); return out; }
            _ => {}
        }
        let kb = program_to_kb(&c.prog);
        let reasks = if self.which == Which::C05 { if self.tier == Tier::Quick { 3 } else { 5 } } else { 0 };
        let query = match guarded(|| Rc::new(query_goal(&c))) { Ok(q) => q, Err(p) => { out.violate(self.sig("panic", &c), witness(&c, "building the query panicked", &p.msg)); return out; } };
        let eng = run_engine_with(&query, &kb, MAX_ANSWERS, reasks);
        if let Some(p) = &eng.panic {
            out.violate(self.sig("panic", &c), witness(&c, "engine panicked", &format!("{} at {}", p.msg, p.loc)));
            return out;
        }
        match self.which {
            Which::C01 | Which::C02 | Which::C03 => {
                if let Err(d) = compare(&refr, &eng, false) { out.violate(self.sig("answers", &c), witness(&c, "answer sequence differs from the reference", &d)); return out; }
                if self.which == Which::C01 {
                    out.evals += 1;
                    match guarded(|| solve_all_check(&c, &kb, &refr, &eng)) {
                        Ok(Ok(())) => out.count("solve_all_checked", 1),
                        Ok(Err(d)) if d.starts_with("STALL") => { out.verdict = Verdict::Inconclusive(d); return out; }
                        Ok(Err(d)) => { out.violate(self.sig("solve_all", &c), witness(&c, "solve_all differs", &d)); return out; }
                        Err(p) if query_stopped() => { let t = start_query_timer(60_000); cancel_timer(t); out.verdict = Verdict::Inconclusive(format!("solve_all panicked while the stop flag was set (timed-out search): {}", p.msg)); return out; }
                        Err(p) => { out.violate(self.sig("solve_all-panic", &c), witness(&c, "solve_all panicked", &p.msg)); return out; }
                    }
                }
            }
            Which::C04 => {
                if let Err(d) = compare(&refr, &eng, true) { out.violate(self.sig("output", &c), witness(&c, "output/answer event sequence differs from the reference", &d)); return out; }
            }
            _ => {}
        }
        // A second search with the *same query object* on a changed knowledge base (one clause
        // removed, or a fact added) must again give the reference's observations for that
        // knowledge base: nothing an earlier search computed may be carried over.
        if matches!(self.which, Which::C01 | Which::C02 | Which::C03 | Which::C04) && idx % 2 == 0 {
            let mut r = Rng::for_case(self.seed, 55, idx);
            let mut c2 = c.clone();
            if c2.prog.clauses.len() >= 2 && r.chance(2, 3) { let k = r.below(c2.prog.clauses.len()); c2.prog.clauses.remove(k); }
            else { let k = r.below(c2.prog.clauses.len()); let mut cl = c2.prog.clauses[k].clone(); cl.body = None; c2.prog.clauses.push(cl); }
            if let Ok(refr2) = rinterp::solve(&c2.prog, &c2.qname, &c2.qargs, 20_000, MAX_ANSWERS) {
                let kb2 = program_to_kb(&c2.prog);
                let eng2 = run_engine_with(&query, &kb2, MAX_ANSWERS, 0);
                out.evals += 1;
                if let Some(p) = &eng2.panic { out.violate(self.sig("panic-second-search", &c), witness(&c2, "engine panicked in a second search with the same query object", &format!("{} at {}", p.msg, p.loc))); return out; }
                if let Err(d) = compare(&refr2, &eng2, self.which == Which::C04) {
                    out.violate(self.sig("second-search", &c), witness(&c2, "a second search with the same query object on a changed knowledge base differs from the reference", &format!("first knowledge base: {} | {}", show_program(&c.prog), d)));
                    return out;
                }
                out.count("second_searches_same_query_object", 1);
            }
        }
        match self.which {
            Which::C01 | Which::C02 | Which::C03 | Which::C04 => {}
            Which::C05 => {
                if !eng.exhausted { out.verdict = Verdict::Skipped("answer cap reached before exhaustion"); return out; }
                out.evals = eng.reasks.len() as u64;
                for (i, (o, some)) in eng.reasks.iter().enumerate() {
                    if *some || !o.is_empty() {
                        out.violate(self.sig("reask", &c), witness(&c, "a request after exhaustion produced an answer or output",
                                    &format!("re-ask #{}: returned {} output {:?}", i + 1, if *some { "an answer" } else { "None" }, o)));
                        return out;
                    }
                }
                out.count("reasks", eng.reasks.len() as u64);
                // same through solve(): after `No more.` every further solve is `No more.` with no output
                let query = Rc::new(query_goal(&c));
                let sn = make_base_node(Rc::clone(&query), &kb);
                let mut n = 0;
                let mut stalled = false;
                loop {
                    let t0 = std::time::Instant::now();
                    let s = solve(Rc::clone(&sn)); n += 1;
                    if s.starts_with("Query timed out") && t0.elapsed().as_millis() >= 1000 { stalled = true; break; }
                    if s == "No more." || n > MAX_ANSWERS + 2 { break; }
                }
                let _ = take_output();
                if stalled { out.verdict = Verdict::Inconclusive("solve() really took more than a second (machine stall)".into()); return out; }
                for i in 0..2 {
                    let t0 = std::time::Instant::now();
                    let s = solve(Rc::clone(&sn));
                    let o = take_output();
                    out.evals += 1;
                    if s.starts_with("Query timed out") && t0.elapsed().as_millis() >= 1000 { out.verdict = Verdict::Inconclusive("solve() really took more than a second (machine stall)".into()); return out; }
                    if n <= MAX_ANSWERS + 2 && (s != "No more." || !o.is_empty()) {
                        out.violate(self.sig("reask-solve", &c), witness(&c, "solve() after `No more.` produced an answer or output", &format!("call #{}: {:?} output {:?}", i + 1, s, o)));
                        return out;
                    }
                }
                // the same node through solve_all(): an exhausted query has no answers left to list
                if n <= MAX_ANSWERS + 2 {
                    let t0 = std::time::Instant::now();
                    let all = solve_all(Rc::clone(&sn));
                    let o = take_output();
                    out.evals += 1;
                    if all.iter().any(|s| s.starts_with("Query timed out")) && t0.elapsed().as_millis() >= 1000 { out.verdict = Verdict::Inconclusive("solve_all() really took more than a second (machine stall)".into()); return out; }
                    if !all.is_empty() || !o.is_empty() {
                        out.violate(self.sig("reask-solve_all", &c), witness(&c, "solve_all() on an exhausted query listed answers or wrote output", &format!("returned {:?} output {:?}", all, o)));
                        return out;
                    }
                }
                // A query that was stopped with the public stop_query() (what the timer does when the limit
                // is reached) and then reported None has been reported exhausted: it stays so after the
                // stop flag has been cleared again by the next timer.
                if idx % 3 == 0 {
                    // (a search that goes on under the stop flag takes paths the reference never took, e.g. into
                    // arithmetic on an unbound variable, which panics: such a case is outside the statements' domain)
                    let stopped = guarded(|| -> Option<Outcome> {
                    let sn3 = make_base_node(Rc::new(query_goal(&c)), &kb);
                    let first = next_solution(Rc::clone(&sn3));
                    let _ = take_output();
                    if first.is_some() {
                        stop_query();
                        let mut drained = false;
                        for _ in 0..MAX_ANSWERS + 2 { if next_solution(Rc::clone(&sn3)).is_none() { drained = true; break; } }
                        let _ = take_output();
                        // clear the flag the way the next solve() would, without building a query
                        let t = start_query_timer(60_000); cancel_timer(t);
                        if drained {
                            for i in 0..3 {
                                let r = next_solution(Rc::clone(&sn3));
                                let o = take_output();
                                out.evals += 1;
                                if r.is_some() || !o.is_empty() {
                                    out.violate(self.sig("reask-after-stop", &c), witness(&c, "a query stopped with stop_query() reported None, and answered again once the stop flag had been cleared",
                                                &format!("request #{} after the flag was cleared: {} output {:?}", i + 1, if r.is_some() { "an answer" } else { "None" }, o)));
                                    return Some(out.clone());
                                }
                            }
                            out.count("reasks_after_stop_query", 1);
                        }
                    } else { let t = start_query_timer(60_000); cancel_timer(t); }
                        None
                    });
                    match stopped {
                        Ok(Some(o)) => return o,
                        Ok(None) => {}
                        Err(_) => { let t = start_query_timer(60_000); cancel_timer(t); let _ = take_output(); out.count("stopped_search_left_the_domain", 1); }
                    }
                }
                // and the other way round: after solve_all() has listed everything, the query is exhausted
                {
                    let sn2 = make_base_node(Rc::new(query_goal(&c)), &kb);
                    let t0 = std::time::Instant::now();
                    let all = solve_all(Rc::clone(&sn2));
                    let _ = take_output();
                    let timed_out = all.iter().any(|s| s.starts_with("Query timed out"));
                    if timed_out && t0.elapsed().as_millis() >= 1000 { out.verdict = Verdict::Inconclusive("solve_all() really took more than a second (machine stall)".into()); return out; }
                    if !timed_out && all.len() < MAX_ANSWERS {
                        let t1 = std::time::Instant::now();
                        let s1 = solve(Rc::clone(&sn2));
                        if s1.starts_with("Query timed out") && t1.elapsed().as_millis() >= 1000 { let _ = take_output(); out.verdict = Verdict::Inconclusive("solve() really took more than a second (machine stall)".into()); return out; }
                        let r2 = next_solution(Rc::clone(&sn2));
                        let o = take_output();
                        out.evals += 2;
                        if s1 != "No more." || r2.is_some() || !o.is_empty() {
                            out.violate(self.sig("reask-after-solve_all", &c), witness(&c, "a request after solve_all() had listed all answers produced an answer or output",
                                        &format!("solve_all listed {} answers; then solve() = {:?}, next_solution() = {}, output {:?}", all.len(), s1, if r2.is_some() { "an answer" } else { "None" }, o)));
                            return out;
                        }
                        out.count("reasks_after_solve_all", 1);
                    }
                }
            }
            Which::C11 => {
                if let Err(d) = compare(&refr, &eng, true) {
                    // disagreement with the reference is C01-C04's business; C11 compares the engine with itself
                    out.count("base_disagrees_with_reference", 1);
                    let _ = d;
                }
                let k = if self.tier == Tier::Quick { 4 } else { 8 };
                out.evals = 0;
                let mut r = Rng::for_case(self.seed, 11, idx);
                for m in 0..k {
                    let rc = alpha_rename(&c, m % 4, &mut r);
                    let kb2 = program_to_kb(&rc.prog);
                    let e2 = run_engine(&rc, &kb2, MAX_ANSWERS, 0);
                    out.evals += 1;
                    if let Some(p) = &e2.panic { out.violate(self.sig("panic-renamed", &c), witness(&rc, "engine panicked on the renamed program", &p.msg)); return out; }
                    let a = merge_outs(&eng.events); let b = merge_outs(&e2.events);
                    if !events_equal(&a, &b) || eng.exhausted != e2.exhausted {
                        out.violate(self.sig("renaming", &c), witness(&c, "answers or output changed under alpha-renaming",
                                    &format!("renamed program: {} | original: {} | renamed: {}", show_program(&rc.prog), show_events(&a), show_events(&b))));
                        return out;
                    }
                    out.count("renamings_compared", 1);
                }
            }
        }
        out
    }
}
