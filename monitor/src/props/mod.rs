use crate::core::*;
pub mod unify;

pub fn make(prop: &str, tier: Tier, seed: u64) -> Option<Box<dyn Workload>> {
    Some(match prop {
        "C06" => Box::new(unify::C06::new(tier, seed)),
        "C07" => Box::new(unify::C07::new(tier, seed)),
        "C08" => Box::new(unify::C08::new(tier, seed)),
        "C09" => Box::new(unify::C09::new(tier, seed)),
        _ => return None,
    })
}
