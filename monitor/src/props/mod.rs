use crate::core::*;
pub mod unify;
pub mod parse;
pub mod search;
pub mod builtins;
pub mod lists;
pub mod textprops;
pub mod timing;
#[cfg(feature = "hooks")]
pub mod insitu;
pub mod rename;
pub mod notprobe;

#[cfg(feature = "hooks")]
fn with_insitu(direct: Box<dyn Workload>, which: usize, tier: Tier, seed: u64) -> Box<dyn Workload> {
    let p = [insitu::Prop::C06, insitu::Prop::C07, insitu::Prop::C08, insitu::Prop::C09, insitu::Prop::C10][which];
    Box::new(Compose { parts: vec![direct, Box::new(insitu::InSitu::new(p, tier, seed))] })
}
#[cfg(not(feature = "hooks"))]
fn with_insitu(direct: Box<dyn Workload>, _which: usize, _tier: Tier, _seed: u64) -> Box<dyn Workload> { direct }

pub fn make(prop: &str, tier: Tier, seed: u64) -> Option<Box<dyn Workload>> {
    Some(match prop {
        "C06" => with_insitu(Box::new(unify::C06::new(tier, seed)), 0, tier, seed),
        "C07" => with_insitu(Box::new(unify::C07::new(tier, seed)), 1, tier, seed),
        "C08" => with_insitu(Box::new(unify::C08::new(tier, seed)), 2, tier, seed),
        "C09" => with_insitu(Box::new(unify::C09::new(tier, seed)), 3, tier, seed),
        "C10" => with_insitu(Box::new(rename::C10::new(tier, seed)), 4, tier, seed),
        "C01" => Box::new(search::Search::new(search::Which::C01, tier, seed)),
        "C02" => Box::new(search::Search::new(search::Which::C02, tier, seed)),
        "C03" => Box::new(Compose { parts: vec![Box::new(notprobe::NotProbe::new()), Box::new(search::Search::new(search::Which::C03, tier, seed))] }),
        "C04" => Box::new(search::Search::new(search::Which::C04, tier, seed)),
        "C05" => Box::new(search::Search::new(search::Which::C05, tier, seed)),
        "C11" => Box::new(search::Search::new(search::Which::C11, tier, seed)),
        "C12" => Box::new(builtins::C12::new(tier, seed)),
        "C13" => Box::new(builtins::C13::new(tier, seed)),
        "C14" => Box::new(builtins::C14::new(tier, seed)),
        "C15" => Box::new(Compose { parts: vec![Box::new(lists::C15Direct::new(tier, seed)), Box::new(builtins::ListBips::new(builtins::ListProp::C15, tier, seed))] }),
        "C16" => Box::new(builtins::ListBips::new(builtins::ListProp::C16, tier, seed)),
        "C17" => Box::new(builtins::ListBips::new(builtins::ListProp::C17, tier, seed)),
        "C18" => Box::new(parse::C18::new(tier, seed)),
        "C19" => Box::new(textprops::C19::new(tier, seed)),
        "C20" => Box::new(textprops::C20::new(tier, seed)),
        "C21" => Box::new(textprops::C21::new(tier, seed)),
        "C22" => Box::new(timing::C22::new(tier, seed)),
        "C23" => Box::new(timing::C23::new(tier, seed)),
        _ => return None,
    })
}
