//! C10 (boundary level): recreate_variables on terms, goals and rules, get_rule, and the
//! query constructors change nothing but the variables, consistently and freshly.
use crate::adapter::*;
use crate::core::*;
use crate::gen_prog::*;
use crate::gen_terms::*;
use crate::gen_text;
use crate::json;
use crate::props::lists::alphabet;
use crate::rng::*;
use crate::rt::*;
use suiron::*;

pub struct C10 { terms: Vec<T>, n_rules: u64, n_progs: u64, seed: u64 }

impl C10 {
    pub fn new(tier: Tier, seed: u64) -> C10 {
        let vars = ["$X", "$Y", "$Z", "$W"];
        let mut terms = universe(&vars, tier == Tier::Thorough);
        // list shapes of the C15 alphabet: every sequence up to length 2 (3), with and without a tail variable
        let a = alphabet();
        let mut seqs: Vec<Vec<T>> = vec![vec![]];
        for x in &a { seqs.push(vec![x.clone()]); }
        for x in &a { for y in &a { seqs.push(vec![x.clone(), y.clone()]); } }
        if tier == Tier::Thorough { for x in &a { for y in &a { for z in &a { seqs.push(vec![x.clone(), y.clone(), z.clone()]); } } } }
        for s in seqs {
            terms.push(list(s.clone()));
            if !s.is_empty() { terms.push(mk_list(s.clone(), Some(var("$Tail")))); terms.push(cplx("f", vec![list(s.clone()), var("$V")])); }
        }
        // variables that occur only inside a function term inside a complex term or list
        let (xv, yv) = (var("$X"), var("$Y"));
        for t in [cplx("ten", vec![func("add", vec![xv.clone(), yv.clone()])]), list(vec![func("add", vec![xv.clone(), T::Int(1)]), T::Int(5)]),
                  cplx("known", vec![func("join", vec![atom("Hello"), xv.clone()])]), cplx("f", vec![xv.clone(), func("multiply", vec![xv.clone(), yv.clone()])]),
                  mk_list(vec![func("subtract", vec![yv.clone(), T::Int(1)])], Some(xv.clone())), cplx("g", vec![cplx("h", vec![func("divide", vec![xv.clone(), T::Float(2.0)])])])] {
            terms.push(t);
        }
        C10 { terms, n_rules: if tier == Tier::Quick { 150_000 } else { 1_000_000 }, n_progs: if tier == Tier::Quick { 30_000 } else { 200_000 }, seed }
    }
}

fn occ_ids(occ: &[(String, usize)]) -> Vec<usize> { let mut v: Vec<usize> = occ.iter().map(|x| x.1).collect(); v.sort(); v.dedup(); v }

impl Workload for C10 {
    fn total(&self) -> u64 { self.terms.len() as u64 + self.n_rules + self.n_progs }
    fn rule(&self) -> String {
        format!("(a) {} terms (the C06 universe plus every list of <= 2-3 elements over the 14-term list alphabet, with and without a tail variable, alone and as a complex-term argument) renamed twice by recreate_variables from a random counter position; (b) {} generated rules (canonical-grammar clauses with every built-in, and/or/not bodies) renamed by Rule::recreate_variables and, body alone, by Goal::recreate_variables; (c) {} generated programs: make_query / parse_query of the query, then get_rule on every clause twice; oracle: with variable ids erased the value is identical to the input (Debug form: every list node's count, tail flag and the empty-list terminator included), same name <=> same id within one renaming, no id 0, ids inside (counter before, counter after], ids of separate renamings (and of the query) pairwise disjoint; non-trivial when the value has a variable that occurs twice or contains a list; distinct by value text",
                self.terms.len(), self.n_rules, self.n_progs)
    }
    fn exhaustive_part(&self) -> Option<String> { Some(format!("all {} enumerated terms", self.terms.len())) }
    fn describe(&mut self, idx: u64) -> String { json::obj(&[("case", idx.to_string())]) }
    fn run(&mut self, idx: u64) -> Outcome {
        let nt = self.terms.len() as u64;
        if idx < nt {
            let t = self.terms[idx as usize].clone();
            let text = show(&t);
            let mut out = Outcome::new(hash_str(&format!("term {}", text)));
            out.evals = 0;
            out.sample = json::obj(&[("term", json::esc(&text))]);
            let mut vs = vec![]; t.vars(&mut vs);
            let mut occ0 = vec![]; let z = to_su_zero(&t); var_occurrences_u(&z, &mut occ0);
            out.nontrivial = occ0.len() > vs.len() || matches!(t, T::List(..)) || text.contains('[');
            let base = (mix(self.seed ^ idx) % 50) as usize;
            let wit = |kind: &str, d: &str| json::obj(&[("kind", json::esc(kind)), ("term", json::esc(&text)), ("counter_before", base.to_string()), ("detail", json::esc(d))]);
            let r = guarded(|| {
                set_var_id(base);
                let r1 = z.clone().recreate_variables(&mut VarMap::new());
                let mid = get_var_id();
                let r2 = r1.clone().recreate_variables(&mut VarMap::new());
                let end = get_var_id();
                (r1, mid, r2, end)
            });
            let (r1, mid, r2, end) = match r { Ok(x) => x, Err(p) => { out.violate(format!("panic|{}", text), wit("recreate_variables panicked", &p.msg)); return out; } };
            for (k, (r, lo, hi)) in [(&r1, base, mid), (&r2, mid, end)].iter().enumerate() {
                out.evals += 1;
                if format!("{:?}", erase_u(r)) != format!("{:?}", erase_u(&z)) {
                    out.violate(format!("skeleton|{}", text), wit("renaming changed more than the variables", &format!("renaming #{}: {:?} vs {:?}", k + 1, erase_u(r), erase_u(&z)))); return out;
                }
                let mut occ = vec![]; var_occurrences_u(r, &mut occ);
                if let Some(d) = renaming_defect(&occ, *lo, *hi) { out.violate(format!("ids|{}", text), wit("inconsistent renaming", &format!("renaming #{}: {}", k + 1, d))); return out; }
                out.count("renamings_checked", 1);
            }
            return out;
        }
        let idx2 = idx - nt;
        if idx2 < self.n_rules {
            let mut r = Rng::for_case(self.seed, 10, idx2);
            let c = gen_text::rand_clause(&mut r, 2);
            let text = show_clause(&c);
            let mut out = Outcome::new(hash_str(&format!("rule {}", text)));
            out.evals = 0;
            out.sample = json::obj(&[("rule", json::esc(&text))]);
            let vs = c.vars();
            let rule = clause_to_su(&c);
            let mut occ0 = vec![]; var_occurrences_rule(&rule, &mut occ0);
            out.nontrivial = occ0.len() > vs.len() || text.contains('[');
            let base = r.below(40);
            let wit = |kind: &str, d: &str| json::obj(&[("kind", json::esc(kind)), ("rule", json::esc(&text)), ("counter_before", base.to_string()), ("detail", json::esc(d))]);
            let rc = rule.clone();
            let res = guarded(move || {
                set_var_id(base);
                let r1 = rc.clone().recreate_variables(&mut VarMap::new());
                let mid = get_var_id();
                let b = match &rc.body { Goal::Nil => None, g => Some(g.clone().recreate_variables(&mut VarMap::new())) };
                let end = get_var_id();
                (r1, mid, b, end)
            });
            let (r1, mid, b, end) = match res { Ok(x) => x, Err(p) => { out.violate(format!("panic|{}", text), wit("recreate_variables panicked", &p.msg)); return out; } };
            out.evals += 1;
            if format!("{:?}", erase_rule(&r1)) != format!("{:?}", erase_rule(&rule)) {
                out.violate(format!("skeleton|{}", text), wit("renaming a rule changed more than its variables", &format!("{:?} vs {:?}", erase_rule(&r1), erase_rule(&rule)))); return out;
            }
            let mut occ = vec![]; var_occurrences_rule(&r1, &mut occ);
            if let Some(d) = renaming_defect(&occ, base, mid) { out.violate(format!("ids|{}", text), wit("inconsistent renaming of a rule", &d)); return out; }
            out.count("rules_checked", 1);
            if let Some(b) = b {
                out.evals += 1;
                if format!("{:?}", erase_goal(&b)) != format!("{:?}", erase_goal(&rule.body)) {
                    out.violate(format!("skeleton-goal|{}", text), wit("renaming a goal changed more than its variables", &format!("{:?} vs {:?}", erase_goal(&b), erase_goal(&rule.body)))); return out;
                }
                let mut occ = vec![]; var_occurrences_goal(&b, &mut occ);
                if let Some(d) = renaming_defect(&occ, mid, end) { out.violate(format!("ids-goal|{}", text), wit("inconsistent renaming of a goal", &d)); return out; }
                out.count("goals_checked", 1);
            }
            return out;
        }
        // (c) programs: query constructors, then every clause fetched twice
        let idx3 = idx2 - self.n_rules;
        let c = random_case(self.seed, 110, idx3, Feat { cut: true, not: true, print: true, fail: true, anon: true, builtins: true });
        let text = c.text();
        let mut out = Outcome::new(hash_str(&format!("prog {}", text)));
        out.evals = 0;
        out.sample = json::obj(&[("program", json::strs(&c.prog.clauses.iter().map(show_clause).collect::<Vec<_>>())), ("query", json::esc(&format!("{}({})", c.qname, show_args(&c.qargs))))]);
        out.nontrivial = true;
        let wit = |kind: &str, d: &str| json::obj(&[("kind", json::esc(kind)), ("program", json::esc(&text)), ("detail", json::esc(d))]);
        let kb = program_to_kb(&c.prog);
        let mut qterms = vec![Unifiable::Atom(c.qname.clone())];
        for a in &c.qargs { qterms.push(to_su_zero(a)); }
        // the text route only when the text denotes the same value (a float without fractional part prints as an integer)
        fn text_safe(t: &T) -> bool {
            match t {
                T::Float(f) => f.fract() != 0.0 && f.is_finite(),
                T::Cplx(_, a) | T::Func(_, a) => a.iter().all(text_safe),
                T::List(e, tl) => e.iter().all(text_safe) && tl.as_ref().map_or(true, |x| text_safe(x)) && !matches!(tl.as_deref(), Some(T::Anon)),
                _ => true,
            }
        }
        let use_text = idx3 % 2 == 1 && c.qargs.iter().all(text_safe);
        let qtext = format!("{}({})", c.qname, show_args(&c.qargs));
        let q = guarded(|| if use_text { parse_query(&qtext) } else { Ok(make_query(qterms.clone())) });
        let q = match q { Ok(Ok(Goal::ComplexGoal(u))) => u, Ok(Ok(_)) | Ok(Err(_)) => { out.verdict = Verdict::Skipped("query text not accepted (C19's subject)"); return out; }
                          Err(p) => { out.violate(format!("panic-query|{}", text), wit("query constructor panicked", &p.msg)); return out; } };
        let after_q = get_var_id();
        out.evals += 1;
        if format!("{:?}", erase_u(&q)) != format!("{:?}", erase_u(&Unifiable::SComplex(qterms.clone()))) {
            out.violate(format!("skeleton-query|{}", text), wit("the query constructor changed more than the variables", &format!("{:?}", q))); return out;
        }
        let mut qocc = vec![]; var_occurrences_u(&q, &mut qocc);
        if let Some(d) = renaming_defect(&qocc, 0, after_q) { out.violate(format!("ids-query|{}", text), wit("inconsistent renaming of the query", &d)); return out; }
        let mut used: Vec<usize> = occ_ids(&qocc);
        let mut keys: Vec<(String, usize)> = vec![];
        for cl in &c.prog.clauses { let k = (cl.name.clone(), cl.args.len()); if !keys.contains(&k) { keys.push(k); } }
        for round in 0..2 {
            for (name, ar) in &keys {
                let key = format!("{}/{}", name, ar);
                let n = count_rules(&kb, &key);
                let stored = kb.get(&key).cloned().unwrap_or_default();
                for i in 0..n {
                    let before = get_var_id();
                    let r = match guarded(|| get_rule(&kb, &key, i)) { Ok(r) => r, Err(p) => { out.violate(format!("panic-get_rule|{}", text), wit("get_rule panicked", &p.msg)); return out; } };
                    let after = get_var_id();
                    out.evals += 1;
                    if format!("{:?}", erase_rule(&r)) != format!("{:?}", erase_rule(&stored[i])) {
                        out.violate(format!("skeleton-get_rule|{}", show_clause(&c.prog.clauses[0])), wit("get_rule returned a clause that differs from the stored one in more than its variables", &format!("{} #{}: {} vs {}", key, i, r, stored[i]))); return out;
                    }
                    let mut occ = vec![]; var_occurrences_rule(&r, &mut occ);
                    if let Some(d) = renaming_defect(&occ, before, after) { out.violate(format!("ids-get_rule|{}", text), wit("inconsistent renaming by get_rule", &format!("{} #{} (round {}): {}", key, i, round + 1, d))); return out; }
                    for id in occ_ids(&occ) {
                        if used.contains(&id) { out.violate(format!("reuse|{}", text), wit("a fresh variable id is already in use by the query or an earlier fetched clause", &format!("{} #{} (round {}): id {}", key, i, round + 1, id))); return out; }
                        used.push(id);
                    }
                    out.count("get_rule_checked", 1);
                }
            }
        }
        out
    }
}
