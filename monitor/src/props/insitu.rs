//! In-situ channel of C06-C10: the hooks in /repo (feature verif-hooks) report every head
//! unification, every `=` goal and every clause renaming that happens in the middle of real
//! searches; the oracles of the direct workloads are applied to those events.
use crate::adapter::*;
use crate::core::*;
use crate::gen_prog::*;
use crate::json;
use crate::props::search::*;
use crate::props::unify::*;
use crate::rinterp;
use crate::rng::*;
use crate::rt::*;
use crate::runify::*;
use std::cell::RefCell;
use std::rc::Rc;
use suiron::verif_hooks::{set_hook, HookEvent};
use suiron::*;

#[derive(Clone, Copy, PartialEq, Debug)]
pub enum Prop { C06, C07, C08, C09, C10 }

#[derive(Default)]
struct State {
    which: Option<Prop>,
    unify_events: u64, bip_unify_events: u64, rename_events: u64,
    checked: u64, skipped_occurs: u64, skipped_ambiguous: u64, skipped_func: u64,
    succ: u64, fail: u64, anon_top: u64, with_prior_bindings: u64, ids_checked: u64,
    violation: Option<(String, String)>,
    /// set with the first violation: the callback then unwinds out of the engine (the run is
    /// over as far as the monitor is concerned; a search that goes on after, say, a cyclic
    /// binding could hang)
    abort: bool,
}

thread_local! { static STATE: RefCell<State> = RefCell::new(State::default()); }

fn norm(t: &T) -> T { t.map_vars(&mut |_, i| T::Var("$v".to_string(), i)) }
fn lv(id: usize) -> Unifiable { Unifiable::LogicVar { id, name: "$v".to_string() } }

fn ids_of(u: &Unifiable, out: &mut Vec<usize>) {
    let mut occ = vec![]; var_occurrences_u(u, &mut occ);
    for (_, id) in occ { if !out.contains(&id) { out.push(id); } }
}

/// Reference substitution equivalent to an engine substitution set.
fn subst_of(ss: &SubstitutionSet) -> Subst {
    let mut s = Subst::new();
    for (i, e) in ss.iter().enumerate() { if let Some(v) = e { s.bind("$v", i as u32, norm(&from_su(v))); } }
    s
}

fn show_ss(ss: &SubstitutionSet) -> String {
    ss.iter().enumerate().filter_map(|(i, e)| e.as_ref().map(|v| format!("{}->{}", i, v))).collect::<Vec<_>>().join(" ")
}

fn violate(st: &mut State, sig: String, wit: String) { if st.violation.is_none() { st.violation = Some((sig, wit)); st.abort = true; } }

fn on_unify(st: &mut State, site: &str, left: &Unifiable, right: &Unifiable, ss_in: &SubstitutionSet, ss_out: Option<&SubstitutionSet>) {
    let which = match st.which { Some(w) => w, None => return };
    if st.violation.is_some() { return; }
    let (a, b) = (norm(&from_su(left)), norm(&from_su(right)));
    let wit = |kind: &str, d: &str| json::obj(&[("kind", json::esc(kind)), ("site", json::esc(site)), ("left", json::esc(&format!("{}", left))), ("right", json::esc(&format!("{}", right))),
                                                ("bindings_before", json::esc(&show_ss(ss_in))), ("detail", json::esc(d))]);
    let sig = |kind: &str| { let c = canon_vars(&[a.clone(), b.clone()]); format!("insitu-{}|{}|{}|{}", kind, site, show(&c[0]), show(&c[1])) };
    if ss_in.iter().any(|e| e.is_some()) { st.with_prior_bindings += 1; }
    match which {
        Prop::C08 => {
            if let Some(out) = ss_out {
                st.checked += 1;
                if let Some(c) = cycle_in(out) { violate(st, sig("cycle"), wit("cyclic bindings after a unification inside a search", &c)); }
            }
        }
        Prop::C09 => {
            let top_anon = matches!(left, Unifiable::Anonymous) || matches!(right, Unifiable::Anonymous);
            if top_anon {
                st.anon_top += 1; st.checked += 1;
                match ss_out {
                    None => violate(st, sig("anon-fails"), wit("`$_` failed to unify inside a search", "")),
                    Some(out) => if !same_bindings(out, ss_in) { violate(st, sig("anon-binds"), wit("unifying with `$_` changed the bindings inside a search", &show_ss(out))); }
                }
            } else if a.has_anon() || b.has_anon() {
                // nested wildcards: no variable may end up bound to, or containing, nothing new
                // beyond what the reference binds (checked through the C06 oracle below)
                check_against_reference(st, &a, &b, left, right, ss_in, ss_out, &sig, &wit);
            }
        }
        Prop::C06 => check_against_reference(st, &a, &b, left, right, ss_in, ss_out, &sig, &wit),
        Prop::C07 => {
            if a.has_func() || b.has_func() { st.skipped_func += 1; return; }
            let prior = subst_of(ss_in);
            let mut vars: Vec<usize> = vec![]; ids_of(left, &mut vars); ids_of(right, &mut vars);
            let tv: Vec<T> = vars.iter().map(|i| T::Var("$v".into(), *i as u32)).collect();
            let rr = ref_unify_on(&tv, &prior, &a, &b);
            if rr.occurs { st.skipped_occurs += 1; return; }
            if rr.ambiguous { st.skipped_ambiguous += 1; return; }
            st.checked += 1;
            let ssin: Rc<SubstitutionSet> = Rc::new(ss_in.clone());
            let swapped = guarded(|| right.unify(left, &ssin));
            let first: Option<Rc<SubstitutionSet>> = ss_out.map(|o| Rc::new(o.clone()));
            let uv: Vec<Unifiable> = vars.iter().map(|i| lv(*i)).collect();
            match swapped {
                Err(p) => violate(st, sig("swap-panic"), wit("the swapped unification panicked", &p.msg)),
                Ok(second) => match guarded(|| sym_compare(&first, &second, &uv)) {
                    Ok(Ok(())) => { if first.is_some() { st.succ += 1 } else { st.fail += 1 } }
                    Ok(Err(d)) => violate(st, sig("asym"), wit("head/goal unification inside a search is not symmetric", &d)),
                    Err(p) => violate(st, sig("asym-panic"), wit("resolving panicked", &p.msg)),
                },
            }
        }
        Prop::C10 => {}
    }
}

fn check_against_reference(st: &mut State, a: &T, b: &T, left: &Unifiable, right: &Unifiable, ss_in: &SubstitutionSet, ss_out: Option<&SubstitutionSet>,
                           sig: &dyn Fn(&str) -> String, wit: &dyn Fn(&str, &str) -> String) {
    if a.has_func() || b.has_func() { st.skipped_func += 1; return; }
    let prior = subst_of(ss_in);
    let mut vars: Vec<usize> = vec![]; ids_of(left, &mut vars); ids_of(right, &mut vars);
    // variables reachable through the bindings matter too
    for (i, e) in ss_in.iter().enumerate() { if e.is_some() && !vars.contains(&i) { vars.push(i); } }
    let tv: Vec<T> = vars.iter().map(|i| T::Var("$v".into(), *i as u32)).collect();
    let rr = ref_unify_on(&tv, &prior, a, b);
    if rr.occurs { st.skipped_occurs += 1; return; }
    if rr.ambiguous { st.skipped_ambiguous += 1; return; }
    if rr.s.func_seen { st.skipped_func += 1; return; }
    st.checked += 1;
    match (ss_out, rr.ok) {
        (None, false) => { st.fail += 1; }
        (Some(_), false) => violate(st, sig("succeeds"), wit("engine succeeds inside a search, no unifier exists", "")),
        (None, true) => violate(st, sig("fails"), wit("engine fails inside a search, a unifier exists", "")),
        (Some(out), true) => {
            st.succ += 1;
            if let Some(c) = cycle_in(out) { violate(st, sig("cycle"), wit("cyclic bindings", &c)); return; }
            for (i, e) in ss_in.iter().enumerate() {
                if let Some(v) = e {
                    let kept = match out.get(i) { Some(Some(w)) => **w == **v, _ => false };
                    if !kept { violate(st, sig("lost"), wit("an earlier binding was lost or changed", &format!("id {}", i))); return; }
                }
            }
            let out_rc: Rc<SubstitutionSet> = Rc::new(out.clone());
            let et: Result<Vec<T>, Panic> = vars.iter().map(|i| guarded(|| norm(&from_su(&lv(*i).replace_variables(&out_rc))))).collect();
            match et {
                Err(p) => violate(st, sig("resolve-panic"), wit("resolving panicked", &p.msg)),
                Ok(et) => {
                    let rt: Vec<T> = tv.iter().map(|v| rr.s.resolve(v)).collect();
                    if !same_vec(&canon_vars(&et), &canon_vars(&rt)) {
                        violate(st, sig("mgu"), wit("resolved values differ from the most general unifier",
                                &format!("engine ({}) reference ({})", et.iter().map(show).collect::<Vec<_>>().join(", "), rt.iter().map(show).collect::<Vec<_>>().join(", "))));
                    }
                }
            }
        }
    }
}

fn on_rename(st: &mut State, predicate: &str, index: usize, stored: &Rule, renamed: &Rule, goal: &Unifiable, ss: &SubstitutionSet, before: usize, after: usize) {
    if st.which != Some(Prop::C10) || st.violation.is_some() { return; }
    st.checked += 1;
    let wit = |kind: &str, d: &str| json::obj(&[("kind", json::esc(kind)), ("predicate", json::esc(predicate)), ("clause_index", index.to_string()), ("stored", json::esc(&format!("{}", stored))),
                                                ("renamed", json::esc(&format!("{}", renamed))), ("goal", json::esc(&format!("{}", goal))), ("detail", json::esc(d))]);
    let sig = |kind: &str| format!("insitu-{}|{}", kind, erase_rule(stored));
    // (i) nothing but the variables changed
    if format!("{:?}", erase_rule(stored)) != format!("{:?}", erase_rule(renamed)) {
        violate(st, sig("skeleton"), wit("the renamed clause differs from the stored one in more than its variables", &format!("{:?} vs {:?}", erase_rule(stored), erase_rule(renamed)))); return;
    }
    // (ii) consistent, fresh range
    let mut occ = vec![]; var_occurrences_rule(renamed, &mut occ);
    if let Some(d) = renaming_defect(&occ, before, after) { violate(st, sig("ids"), wit("inconsistent renaming", &d)); return; }
    // (iv) not in use elsewhere in the current search: goal, bound entries, values
    let mut used: Vec<usize> = vec![]; ids_of(goal, &mut used);
    for (i, e) in ss.iter().enumerate() { if let Some(v) = e { if !used.contains(&i) { used.push(i); } ids_of(v, &mut used); } }
    for (n, id) in &occ {
        st.ids_checked += 1;
        if used.contains(id) { violate(st, sig("not-fresh"), wit("a fresh variable is already in use in the current search", &format!("{} got id {} which occurs in the goal or in the bindings: {}", n, id, show_ss(ss)))); return; }
    }
}

pub fn install(which: Prop) {
    STATE.with(|s| { *s.borrow_mut() = State { which: Some(which), ..State::default() }; });
    set_hook(Some(Box::new(|e: &HookEvent| {
        let abort = STATE.with(|s| {
            let mut st = match s.try_borrow_mut() { Ok(g) => g, Err(_) => return false };
            match e {
                HookEvent::HeadUnify { head, goal, ss_in, ss_out } => { st.unify_events += 1; on_unify(&mut st, "head", head, goal, ss_in, *ss_out); }
                HookEvent::BipUnify { left, right, ss_in, ss_out } => { st.bip_unify_events += 1; on_unify(&mut st, "=", left, right, ss_in, *ss_out); }
                HookEvent::Rename { predicate, index, stored, renamed, goal, ss, id_before, id_after } => { st.rename_events += 1; on_rename(&mut st, predicate, *index, stored, renamed, goal, ss, *id_before, *id_after); }
            }
            let a = st.abort; st.abort = false; a
        });
        if abort { std::panic::resume_unwind(Box::new("verif: run abandoned after a violation")); }
    })));
}

fn uninstall() -> State {
    set_hook(None);
    STATE.with(|s| std::mem::take(&mut *s.borrow_mut()))
}

pub struct InSitu { which: Prop, seed: u64, shapes: Shapes, n_shapes: u64, n_rand: u64 }

impl InSitu {
    pub fn new(which: Prop, tier: Tier, seed: u64) -> InSitu {
        let shapes = Shapes::new(Feat { fail: true, not: true, cut: true, ..Feat::default() }, 2, 1);
        let n_shapes = shapes.total();
        InSitu { which, seed, shapes, n_shapes, n_rand: if tier == Tier::Quick { 60_000 } else { 500_000 } }
    }
    fn pick(&self, idx: u64) -> Case {
        if idx < self.n_shapes { return self.shapes.get(idx); }
        random_case(self.seed, 300 + self.which as u64, idx - self.n_shapes, Feat { cut: true, not: true, print: false, fail: true, anon: true, builtins: true })
    }
}

impl Workload for InSitu {
    fn total(&self) -> u64 { self.n_shapes + self.n_rand }
    fn rule(&self) -> String {
        format!("in-situ channel: {} small program shapes and {} random programs (list patterns, aliasing through repeated head variables, `$_`, recursion templates, cut, not) are run to exhaustion with the repository's verif-hooks installed; every head unification, every `=` goal and every clause renaming that the real search performs is handed to the property's oracle together with the substitution set it happened under; non-trivial when the run produced at least one event that the oracle could check under a non-empty substitution set; distinct by name-canonical program+query text",
                self.n_shapes, self.n_rand)
    }
    fn describe(&mut self, idx: u64) -> String { case_json(&self.pick(idx)) }
    fn run(&mut self, idx: u64) -> Outcome {
        let mut c = self.pick(idx);
        // C09: the same corpus made rich in `$_` (every singleton variable of a clause written as `$_`)
        if self.which == Prop::C09 && idx % 4 != 0 { c = anonymize_singletons(&c); }
        let mut out = Outcome::new(hash_str(&format!("insitu {}", c.text())));
        out.sample = case_json(&c);
        out.evals = 0;
        // terminating cases only (screened by the reference; its verdict on answers is C01's business)
        let refr = match rinterp::solve(&c.prog, &c.qname, &c.qargs, 20_000, MAX_ANSWERS) {
            Ok(r) => r,
            Err(e) => {
                if e.starts_with("budget") { out.verdict = Verdict::Skipped("reference budget exceeded"); return out; }
                // out-of-domain programs may panic inside arithmetic etc.: not this property's subject
                out.verdict = Verdict::Skipped("outside the statements' domain"); return out;
            }
        };
        let kb = program_to_kb(&c.prog);
        install(self.which);
        let eng = run_engine(&c, &kb, MAX_ANSWERS, 0);
        let st = uninstall();
        out.evals = st.checked;
        out.count("head_unify_events", st.unify_events);
        out.count("bip_unify_events", st.bip_unify_events);
        out.count("rename_events", st.rename_events);
        out.count("events_checked", st.checked);
        out.count("events_with_prior_bindings", st.with_prior_bindings);
        out.count("insitu_success", st.succ); out.count("insitu_failure", st.fail);
        out.count("skipped_occurs_check", st.skipped_occurs); out.count("skipped_wildcard_order_dependent", st.skipped_ambiguous); out.count("skipped_function_term", st.skipped_func);
        out.count("top_level_anon_events", st.anon_top); out.count("fresh_ids_checked", st.ids_checked);
        out.nontrivial = st.checked > 0 && st.with_prior_bindings > 0;
        if let Some((sig, wit)) = st.violation {
            let w = json::obj(&[("event", wit), ("program", json::strs(&c.prog.clauses.iter().map(show_clause).collect::<Vec<_>>())), ("query", json::esc(&format!("{}({})", c.qname, show_args(&c.qargs))))]);
            out.violate(sig, w);
            return out;
        }
        if eng.panic.is_some() { out.count("engine_panics_left_to_C01", 1); }
        // C09 at program level: with `$_` in heads, goals, list elements, tails and nested terms the
        // answers must be those of the reference, in which `$_` matches anything and never binds
        else if self.which == Prop::C09 && c.prog.clauses.iter().any(|cl| cl.args.iter().any(|t| t.has_anon()) || cl.body.as_ref().map_or(false, |b| b.terms().iter().any(|t| t.has_anon()))) {
            out.evals += 1;
            match compare(&refr, &eng, false) {
                Ok(()) => out.count("anon_programs_answers_equal_reference", 1),
                Err(d) => {
                    out.violate(format!("insitu-anon-program|{}", c.text()), json::obj(&[("kind", json::esc("a program with `$_` gives answers that differ from the reference")),
                        ("program", json::strs(&c.prog.clauses.iter().map(show_clause).collect::<Vec<_>>())), ("query", json::esc(&format!("{}({})", c.qname, show_args(&c.qargs)))), ("detail", json::esc(&d))]));
                    return out;
                }
            }
        }
        if st.checked == 0 && out.evals == 0 { out.verdict = Verdict::Skipped("no checkable event in this run"); }
        out
    }
}
