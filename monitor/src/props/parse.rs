//! C18: every parser entry point returns Ok/Err for every input (never panics, aborts, loops).
use crate::core::*;
use crate::gen_text::*;
use crate::json;
use crate::rng::*;
use crate::rt::*;
use suiron::*;

pub const ENTRY: [&str; 10] = ["parse_term", "parse_linked_list", "parse_complex", "parse_function", "parse_query",
                               "parse_subgoal", "generate_goal", "parse_rule", "parse_arguments", "make_logic_var"];

/// Ok(true) = parser returned Ok, Ok(false) = parser returned Err.
pub fn call_entry(k: usize, s: &str) -> Result<bool, Panic> {
    match k {
        0 => guarded(|| parse_term(s).is_ok()),
        1 => guarded(|| parse_linked_list(s).is_ok()),
        2 => guarded(|| parse_complex(s).is_ok()),
        3 => guarded(|| parse_function(s).is_ok()),
        4 => guarded(|| parse_query(s).is_ok()),
        5 => guarded(|| parse_subgoal(s).is_ok()),
        6 => guarded(|| generate_goal(s).is_ok()),
        7 => guarded(|| parse_rule(s).is_ok()),
        8 => guarded(|| parse_arguments(s).is_ok()),
        _ => guarded(|| make_logic_var(s.to_string()).is_ok()),
    }
}

/// Long inputs (tens to hundreds of kilobytes): `opener x n + core + closer x n`. They are parsed on
/// a thread with an 8 MB stack - what the main thread of a program has by default - so that
/// "no input makes a parser abort" is observed under the stack a user's call would have.
/// (opener, core, closer, n, description)
pub const DEEP: [(&str, &str, &str, usize, &str); 8] = [
    ("[", "a", "]", 20_000, "20000 nested list brackets"),
    ("(", "a(b)", ")", 40_000, "40000 nested parentheses around a goal"),
    ("not(", "a(b)", ")", 10_000, "10000 nested not(...)"),
    ("f(", "a", ")", 20_000, "20000 nested complex terms"),
    ("[a, ", "b", "]", 5_000, "5000 nested two-element lists"),
    ("a, ", "b", "", 20_000, "a flat list of 20000 comma-separated items"),
    ("a(1); ", "b(2)", "", 5_000, "a disjunction of 5000 goals"),
    ("a", "b", "", 200_000, "an atom of 200000 characters"),
];

fn deep_spec(k: usize) -> String { let (o, core, c, n, what) = DEEP[k]; format!("{:?} x {} + {:?} + {:?} x {}  ({})", o, n, core, c, n, what) }

pub struct C18 { seed: u64, short: Vec<String>, n_canon: u64, n_mut: u64, n_rand: u64, n_nest: u64 }

impl C18 {
    pub fn new(tier: Tier, seed: u64) -> C18 {
        let alpha: Vec<char> = "()[],;.|\\$\"a-+".chars().collect();
        let short = all_strings(&alpha, 3);
        let (c, m, r) = if tier == Tier::Quick { (100_000, 300_000, 150_000) } else { (800_000, 3_000_000, 1_200_000) };
        C18 { seed, short, n_canon: c, n_mut: m, n_rand: r, n_nest: if tier == Tier::Quick { 20_000 } else { 200_000 } }
    }
    pub fn canon_text(&self, r: &mut Rng) -> String {
        match r.below(9) {
            0 => show(&rand_term(r, 3)),
            1 => src_goal(&rand_body(r, 2), r.chance(1, 2)),
            2 | 3 => src_clause(&rand_clause(r, 2), r.chance(1, 2)),
            4 => show_args(&(0..r.range(1, 4)).map(|_| rand_term(r, 2)).collect::<Vec<_>>()),
            5 => { let n = r.range(0, 3); format!("{}({})", FUNCTORS[r.below(FUNCTORS.len())], show_args(&(0..n).map(|_| rand_term(r, 2)).collect::<Vec<_>>())) }
            // outside the canonical grammar but inside the documented syntax: parenthesised
            // groups, time(...), quoted atoms, backslash escapes
            6 => {
                let a = rand_body(r, 1); let b = rand_body(r, 1); let c = rand_body(r, 1);
                let g = match r.below(4) {
                    0 => G::And(vec![a, G::Or(vec![b, c])]),
                    1 => G::Or(vec![G::And(vec![a, b]), c]),
                    2 => G::And(vec![G::Or(vec![a, b]), G::Not(Box::new(c))]),
                    _ => G::And(vec![G::And(vec![a, b]), c]),
                };
                let t = show_goal_grouped(&g, r.chance(1, 2));
                if r.chance(1, 3) { format!("p($X) :- {}.", t) } else { t }
            }
            7 => format!("time({})", src_goal(&rand_body(r, 1), true)),
            _ => {
                let q = ["\"a, b\"", "\"\"", "\\,", "\"x\\\"y\"", "\\[", "\\\\", "\"(\"", "\")\"", "\"$X\""][r.below(9)];
                match r.below(4) {
                    0 => format!("p({}, {})", q, show(&rand_term(r, 1))),
                    1 => format!("[{}, {} | $T]", show(&rand_term(r, 1)), q),
                    2 => format!("$X = {}", q),
                    _ => format!("p({}) :- q({}), {} == $X.", q, q, q),
                }
            }
        }
    }
    /// Deeply nested input: k openers of one or several kinds, a core, the matching closers;
    /// optionally perturbed. At most 160 characters.
    pub fn nested_text(&self, r: &mut Rng, idx: u64) -> String {
        const OPEN: [(&str, &str); 8] = [("(", ")"), ("[", "]"), ("f(", ")"), ("not(", ")"), ("[a, ", "]"), ("(a, ", ")"), ("g(a, ", ")"), ("[a | ", "]")];
        let cores = ["a", "a(b)", "$X", "a, b", "a; b", "p($X), q($Y)", "$X = 1", "", "1.5", "[]",
                     // an infix between bracketed or parenthesised parts
                     "[b] + [c]", "f(a) - g(b)", "[] * []", "(a) / (b)", "[b] == [c]", "[a | $T] = [b]", "$X + [c]"];
        let core = cores[r.below(cores.len())];
        // the first cases walk every opener kind at every depth that fits
        let (kinds, depth): (Vec<usize>, usize) = if idx < 8 * 75 { (vec![(idx % 8) as usize], 1 + (idx / 8) as usize) }
            else { let n = r.range(1, 3); ((0..n).map(|_| r.below(8)).collect(), r.range(2, 75)) };
        let mut open = String::new(); let mut close = String::new();
        for d in 0..depth {
            let (o, c) = OPEN[kinds[d % kinds.len()]];
            if open.len() + close.len() + o.len() + c.len() + core.len() > 160 { break; }
            open.push_str(o); close.insert_str(0, c);
        }
        let mut s = format!("{}{}{}", open, core, close);
        match r.below(6) {
            0 => { s.push('.'); s = format!("p($X) :- {}", s); }
            1 => { let k = r.below(4); for _ in 0..k { s.pop(); } }          // unbalanced: closers missing
            2 => { s.push_str(&")".repeat(r.below(3))); }                    // unbalanced: extra closers
            _ => {}
        }
        s.chars().take(160).collect()
    }
    fn pick(&self, idx: u64) -> (String, &'static str) {
        // the long inputs come first: a case that aborts the worker then costs no finished work
        if idx < DEEP.len() as u64 { let (o, core, c, n, _) = DEEP[idx as usize]; return (format!("{}{}{}", o.repeat(n), core, c.repeat(n)), "long"); }
        let idx = idx - DEEP.len() as u64;
        let ns = self.short.len() as u64;
        if idx < ns { return (self.short[idx as usize].clone(), "exhaustive-short"); }
        let idx = idx - ns;
        if idx < self.n_nest { let mut r = Rng::for_case(self.seed, 181, idx); return (self.nested_text(&mut r, idx), "nested"); }
        let idx = idx - self.n_nest;
        let mut r = Rng::for_case(self.seed, 18, idx);
        if idx < self.n_canon { return (self.canon_text(&mut r), "canonical"); }
        if idx < self.n_canon + self.n_mut { let t = self.canon_text(&mut r); return (mutate(&mut r, &t), "mutated"); }
        let max = if r.chance(1, 4) { 160 } else { 24 };
        (rand_string(&mut r, max), "random")
    }
}

impl Workload for C18 {
    fn total(&self) -> u64 { self.short.len() as u64 + DEEP.len() as u64 + self.n_nest + self.n_canon + self.n_mut + self.n_rand }
    fn rule(&self) -> String {
        format!("each input string is given to all {} parser entry points under catch_unwind: all {} strings of length <= 3 over the 14-character syntax alphabet, 8 long inputs of 10-400 kilobytes (deep nesting of brackets, parentheses, not(...), complex terms; flat lists, disjunctions, one huge atom) parsed on a thread with the default 8 MB main-thread stack, {} deeply nested texts (each of 8 opener kinds - parentheses, brackets, complex terms, not(...), list and argument prefixes - at every depth that fits into 160 characters, then random mixtures of kinds, cores and unbalanced variants), {} canonical texts (terms, goals, rules, argument lists), {} mutations of such texts (1-4 edits), {} random strings over the syntax alphabet up to 160 characters; non-trivial when at least one entry point returned Ok or the input has >= 2 syntax characters; distinct by input string",
                ENTRY.len(), self.short.len(), self.n_nest, self.n_canon, self.n_mut, self.n_rand)
    }
    fn slow_case(&self, idx: u64) -> bool { idx < DEEP.len() as u64 }
    fn exhaustive_part(&self) -> Option<String> { Some(format!("all {} strings of length <= 3 over ()[],;.|\\$\"a-+", self.short.len())) }
    fn describe(&mut self, idx: u64) -> String {
        if idx < DEEP.len() as u64 { return json::obj(&[("input_spec", json::esc(&deep_spec(idx as usize))), ("kind", json::esc("long"))]); }
        let (s, kind) = self.pick(idx);
        json::obj(&[("input", json::esc(&s)), ("kind", json::esc(kind))])
    }
    fn run(&mut self, idx: u64) -> Outcome {
        let (s, kind) = self.pick(idx);
        let mut out = Outcome::new(hash_str(&s));
        out.evals = 0;
        out.sample = self.describe(idx);
        let mut any_ok = false;
        if kind == "long" {
            // on a thread with the default main-thread stack (8 MB); an overflow aborts the worker
            // process, which the supervisor isolates and reports as a crash of this case
            let s2 = s.clone();
            let h = std::thread::Builder::new().stack_size(8 << 20).spawn(move || { install_panic_hook(); (0..ENTRY.len()).map(|k| call_entry(k, &s2)).collect::<Vec<_>>() }).expect("spawn");
            let res = match h.join() { Ok(r) => r, Err(_) => { out.verdict = Verdict::Inconclusive("the long-input thread could not be joined".into()); return out; } };
            for (k, r) in res.into_iter().enumerate() {
                out.evals += 1;
                match r {
                    Ok(true) => { any_ok = true; out.count("returned_ok", 1); }
                    Ok(false) => out.count("returned_err", 1),
                    Err(p) => { out.count("panics", 1); out.violate(format!("panic|{}|{}|{}", ENTRY[k], p.file(), p.kind()), json::obj(&[("entry", json::esc(ENTRY[k])), ("input_spec", json::esc(&deep_spec(idx as usize))), ("panic", json::esc(&p.msg)), ("at", json::esc(&p.loc))])); }
                }
            }
            out.count("long_inputs", 1);
            out.nontrivial = true; let _ = any_ok;
            return out;
        }
        for k in 0..ENTRY.len() {
            out.evals += 1;
            match call_entry(k, &s) {
                Ok(true) => { any_ok = true; out.count("returned_ok", 1); }
                Ok(false) => out.count("returned_err", 1),
                Err(p) => {
                    out.count("panics", 1);
                    let sig = format!("panic|{}|{}|{}", ENTRY[k], p.file(), p.kind());
                    let w = json::obj(&[("entry", json::esc(ENTRY[k])), ("input", json::esc(&s)), ("panic", json::esc(&p.msg)), ("at", json::esc(&p.loc))]);
                    // report the first panic of this input; other entry points are still exercised
                    out.violate(sig, w);
                }
            }
        }
        let syn = s.chars().filter(|c| SYNTAX.contains(*c) && *c != ' ').count();
        out.nontrivial = any_ok || syn >= 2;
        out
    }
}
