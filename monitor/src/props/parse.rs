//! C18: every parser entry point returns Ok/Err for every input (never panics, aborts, loops).
use crate::core::*;
use crate::gen_text::*;
use crate::json;
use crate::rng::*;
use crate::rt::*;
use suiron::*;

pub const ENTRY: [&str; 10] = ["parse_term", "parse_linked_list", "parse_complex", "parse_function", "parse_query",
                               "parse_subgoal", "generate_goal", "parse_rule", "parse_arguments", "make_logic_var"];

/// Ok(true) = parser returned Ok, Ok(false) = parser returned Err.
pub fn call_entry(k: usize, s: &str) -> Result<bool, Panic> {
    match k {
        0 => guarded(|| parse_term(s).is_ok()),
        1 => guarded(|| parse_linked_list(s).is_ok()),
        2 => guarded(|| parse_complex(s).is_ok()),
        3 => guarded(|| parse_function(s).is_ok()),
        4 => guarded(|| parse_query(s).is_ok()),
        5 => guarded(|| parse_subgoal(s).is_ok()),
        6 => guarded(|| generate_goal(s).is_ok()),
        7 => guarded(|| parse_rule(s).is_ok()),
        8 => guarded(|| parse_arguments(s).is_ok()),
        _ => guarded(|| make_logic_var(s.to_string()).is_ok()),
    }
}

pub struct C18 { seed: u64, short: Vec<String>, n_canon: u64, n_mut: u64, n_rand: u64 }

impl C18 {
    pub fn new(tier: Tier, seed: u64) -> C18 {
        let alpha: Vec<char> = "()[],;.|\\$\"a".chars().collect();
        let short = all_strings(&alpha, 3);
        let (c, m, r) = if tier == Tier::Quick { (30_000, 80_000, 40_000) } else { (400_000, 1_500_000, 600_000) };
        C18 { seed, short, n_canon: c, n_mut: m, n_rand: r }
    }
    pub fn canon_text(&self, r: &mut Rng) -> String {
        match r.below(9) {
            0 => show(&rand_term(r, 3)),
            1 => src_goal(&rand_body(r, 2), r.chance(1, 2)),
            2 | 3 => src_clause(&rand_clause(r, 2), r.chance(1, 2)),
            4 => show_args(&(0..r.range(1, 4)).map(|_| rand_term(r, 2)).collect::<Vec<_>>()),
            5 => { let n = r.range(0, 3); format!("{}({})", FUNCTORS[r.below(FUNCTORS.len())], show_args(&(0..n).map(|_| rand_term(r, 2)).collect::<Vec<_>>())) }
            // outside the canonical grammar but inside the documented syntax: parenthesised
            // groups, time(...), quoted atoms, backslash escapes
            6 => {
                let a = rand_body(r, 1); let b = rand_body(r, 1); let c = rand_body(r, 1);
                let g = match r.below(4) {
                    0 => G::And(vec![a, G::Or(vec![b, c])]),
                    1 => G::Or(vec![G::And(vec![a, b]), c]),
                    2 => G::And(vec![G::Or(vec![a, b]), G::Not(Box::new(c))]),
                    _ => G::And(vec![G::And(vec![a, b]), c]),
                };
                let t = show_goal_grouped(&g, r.chance(1, 2));
                if r.chance(1, 3) { format!("p($X) :- {}.", t) } else { t }
            }
            7 => format!("time({})", src_goal(&rand_body(r, 1), true)),
            _ => {
                let q = ["\"a, b\"", "\"\"", "\\,", "\"x\\\"y\"", "\\[", "\\\\", "\"(\"", "\")\"", "\"$X\""][r.below(9)];
                match r.below(4) {
                    0 => format!("p({}, {})", q, show(&rand_term(r, 1))),
                    1 => format!("[{}, {} | $T]", show(&rand_term(r, 1)), q),
                    2 => format!("$X = {}", q),
                    _ => format!("p({}) :- q({}), {} == $X.", q, q, q),
                }
            }
        }
    }
    fn pick(&self, idx: u64) -> (String, &'static str) {
        let ns = self.short.len() as u64;
        if idx < ns { return (self.short[idx as usize].clone(), "exhaustive-short"); }
        let idx = idx - ns;
        let mut r = Rng::for_case(self.seed, 18, idx);
        if idx < self.n_canon { return (self.canon_text(&mut r), "canonical"); }
        if idx < self.n_canon + self.n_mut { let t = self.canon_text(&mut r); return (mutate(&mut r, &t), "mutated"); }
        let max = if r.chance(1, 4) { 160 } else { 24 };
        (rand_string(&mut r, max), "random")
    }
}

impl Workload for C18 {
    fn total(&self) -> u64 { self.short.len() as u64 + self.n_canon + self.n_mut + self.n_rand }
    fn rule(&self) -> String {
        format!("each input string is given to all {} parser entry points under catch_unwind: all {} strings of length <= 3 over the 12-character syntax alphabet, {} canonical texts (terms, goals, rules, argument lists), {} mutations of such texts (1-4 edits), {} random strings over the syntax alphabet up to 160 characters; non-trivial when at least one entry point returned Ok or the input has >= 2 syntax characters; distinct by input string",
                ENTRY.len(), self.short.len(), self.n_canon, self.n_mut, self.n_rand)
    }
    fn exhaustive_part(&self) -> Option<String> { Some(format!("all {} strings of length <= 3 over ()[],;.|\\$\"a", self.short.len())) }
    fn describe(&mut self, idx: u64) -> String {
        let (s, kind) = self.pick(idx);
        json::obj(&[("input", json::esc(&s)), ("kind", json::esc(kind))])
    }
    fn run(&mut self, idx: u64) -> Outcome {
        let (s, kind) = self.pick(idx);
        let mut out = Outcome::new(hash_str(&s));
        out.evals = 0;
        out.sample = json::obj(&[("input", json::esc(&s)), ("kind", json::esc(kind))]);
        let mut any_ok = false;
        for k in 0..ENTRY.len() {
            out.evals += 1;
            match call_entry(k, &s) {
                Ok(true) => { any_ok = true; out.count("returned_ok", 1); }
                Ok(false) => out.count("returned_err", 1),
                Err(p) => {
                    out.count("panics", 1);
                    let sig = format!("panic|{}|{}|{}", ENTRY[k], p.file(), p.kind());
                    let w = json::obj(&[("entry", json::esc(ENTRY[k])), ("input", json::esc(&s)), ("panic", json::esc(&p.msg)), ("at", json::esc(&p.loc))]);
                    // report the first panic of this input; other entry points are still exercised
                    out.violate(sig, w);
                }
            }
        }
        let syn = s.chars().filter(|c| SYNTAX.contains(*c) && *c != ' ').count();
        out.nontrivial = any_ok || syn >= 2;
        out
    }
}
