//! C15 (direct part): lists built by make_linked_list, slist!, parse_linked_list and
//! recreate_variables hold exactly their elements and are well formed.
use crate::adapter::*;
use crate::core::*;
use crate::json;
use crate::rng::*;
use crate::rt::*;
use std::rc::Rc;
use suiron::*;

pub fn alphabet() -> Vec<T> {
    vec![atom("a"), atom("b c"), T::Int(7), T::Float(2.5), var("$V"), T::Anon, list(vec![]), list(vec![atom("b")]), list(vec![list(vec![])]),
         mk_list(vec![atom("b")], Some(var("$T"))), cplx("f", vec![atom("a")]), list(vec![atom("a"), list(vec![])]), var("$W"), list(vec![atom("x"), atom("y")])]
}

pub struct C15Direct { seqs: Vec<Vec<T>>, n_rand: u64, seed: u64 }

impl C15Direct {
    pub fn new(tier: Tier, seed: u64) -> C15Direct {
        let a = alphabet();
        let mut seqs: Vec<Vec<T>> = vec![vec![]];
        for x in &a { seqs.push(vec![x.clone()]); }
        for x in &a { for y in &a { seqs.push(vec![x.clone(), y.clone()]); } }
        for x in &a { for y in &a { for z in &a { seqs.push(vec![x.clone(), y.clone(), z.clone()]); } } }
        if tier == Tier::Thorough {
            for x in &a { for y in &a { for z in &a { for w in &a { seqs.push(vec![x.clone(), y.clone(), z.clone(), w.clone()]); } } } }
        }
        C15Direct { seqs, n_rand: if tier == Tier::Quick { 120_000 } else { 800_000 }, seed }
    }
    fn pick(&self, idx: u64) -> Vec<T> {
        if (idx as usize) < self.seqs.len() { return self.seqs[idx as usize].clone(); }
        let mut r = Rng::for_case(self.seed, 15, idx);
        let a = alphabet();
        let n = r.range(4, 5);
        (0..n).map(|_| a[r.below(a.len())].clone()).collect()
    }
}

fn erase_ids(t: &T) -> T { t.map_vars(&mut |n, _| T::Var(n.to_string(), 0)) }

impl Workload for C15Direct {
    fn total(&self) -> u64 { self.seqs.len() as u64 + self.n_rand }
    fn rule(&self) -> String {
        format!("every element sequence of length <= {} over a 14-term alphabet (atoms, numbers, variables, `$_`, [], [b], [[]], [b | $T], f(a), [a, []], [x, y]) ({} sequences), then {} random sequences of length 4-5; each is built by make_linked_list (vbar false, and vbar true when the last element is a variable), slist!, parse_linked_list (from text) and renamed by recreate_variables; oracle: layout well-formedness of every node plus the element sequence the statement prescribes (constructor: trailing list spliced, trailing [] adds nothing, trailing variable with vbar is the tail; all other producers: elements exactly as given) plus unification with the independently built list without new bindings; non-trivial when the sequence contains a list-valued element or a variable; distinct by sequence text",
                if self.seqs.len() > 5000 { 4 } else { 3 }, self.seqs.len(), self.n_rand)
    }
    fn exhaustive_part(&self) -> Option<String> { Some(format!("all {} element sequences", self.seqs.len())) }
    fn describe(&mut self, idx: u64) -> String { json::obj(&[("elements", json::esc(&show_args(&self.pick(idx))))]) }
    fn run(&mut self, idx: u64) -> Outcome {
        let elems = self.pick(idx);
        let text = show_args(&elems);
        let mut out = Outcome::new(hash_str(&text));
        out.evals = 0;
        out.sample = json::obj(&[("elements", json::esc(&text))]);
        out.nontrivial = elems.iter().any(|e| matches!(e, T::List(..) | T::Var(..)));
        let mut ids = VarIds::new();
        let su: Vec<Unifiable> = elems.iter().map(|e| to_su(e, &mut Ids::Map(&mut ids))).collect();
        let wit = |producer: &str, d: &str| json::obj(&[("producer", json::esc(producer)), ("elements", json::esc(&text)), ("detail", json::esc(d))]);
        let mut check = |producer: &'static str, built: Result<Unifiable, Panic>, expect: &T, out: &mut Outcome, ids: &mut VarIds| {
            out.evals += 1;
            let built = match built { Ok(b) => b, Err(p) => { out.violate(format!("{}|panic|{}", producer, text), wit(producer, &format!("panic: {}", p.msg))); return; } };
            if let Some(d) = list_defect(&built) { out.violate(format!("{}|layout|{}", producer, text), wit(producer, &format!("{} in {:?}", d, built))); return; }
            let got = from_su(&built);
            if !same(&erase_ids(&got), &erase_ids(expect)) {
                out.violate(format!("{}|elements|{}", producer, text), wit(producer, &format!("built {} expected {}", show(&got), show(expect)))); return;
            }
            // behavioural cross-check: unifies with the independently built list, no new bindings
            if producer != "recreate_variables" && producer != "parse_linked_list" {
                let reference = to_su(expect, &mut Ids::Map(ids));
                let e: Rc<SubstitutionSet> = Rc::new(vec![]);
                match guarded(|| built.unify(&reference, &e)) {
                    Ok(Some(ss)) if ss.iter().all(|x| x.is_none()) => {}
                    Ok(Some(_)) => { out.violate(format!("{}|unify-binds|{}", producer, text), wit(producer, "unifying with the reference-built list created bindings")); return; }
                    Ok(None) => { out.violate(format!("{}|unify-fails|{}", producer, text), wit(producer, &format!("does not unify with the reference-built list {:?} vs {:?}", built, reference))); return; }
                    Err(p) => { out.violate(format!("{}|unify-panic|{}", producer, text), wit(producer, &p.msg)); return; }
                }
            }
            out.count(producer, 1);
        };
        // --- documented constructor
        let n = elems.len();
        let expect_ctor = |vbar: bool| -> Option<T> {
            if n == 0 { return Some(list(vec![])); }
            let last = &elems[n - 1];
            match last {
                T::List(..) if !vbar && n >= 2 => Some(mk_list(elems[..n - 1].to_vec(), Some(last.clone()))),
                T::List(..) => None,                      // single list element / vbar with a list: not described
                T::Var(..) | T::Anon if vbar => Some(mk_list(elems[..n - 1].to_vec(), Some(last.clone()))),
                _ if vbar => None,
                _ => Some(list(elems.clone())),
            }
        };
        for vbar in [false, true] {
            if vbar && n < 2 { continue; }
            if let Some(exp) = expect_ctor(vbar) {
                let s2 = su.clone();
                check("make_linked_list", guarded(move || make_linked_list(vbar, s2)), &exp, &mut out, &mut ids);
                if out.is_violated() { return out; }
                if n >= 1 && n <= 3 {
                    let s3 = su.clone();
                    let b = guarded(move || match s3.len() {
                        1 => slist!(vbar, s3[0].clone()),
                        2 => slist!(vbar, s3[0].clone(), s3[1].clone()),
                        _ => slist!(vbar, s3[0].clone(), s3[1].clone(), s3[2].clone()),
                    });
                    check("slist!", b, &exp, &mut out, &mut ids);
                    if out.is_violated() { return out; }
                }
            }
        }
        // --- parsed list (text must be parser-safe: no `$_` tail inside, which the syntax lacks)
        let exact = list(elems.clone());
        let src = show(&exact);
        {
            let s = src.clone();
            check("parse_linked_list", guarded(move || parse_linked_list(&s)).and_then(|r| r.map_err(|e| Panic { msg: format!("rejected: {}", e), loc: String::new() })), &exact, &mut out, &mut ids);
            if out.is_violated() { return out; }
        }
        // --- renamed clause list: with and without a tail variable
        for tail in [None, Some(var("$Tail"))] {
            let exp = mk_list(elems.clone(), tail.clone());
            if n == 0 && tail.is_some() { continue; }
            let z = to_su_zero(&exp);
            check("recreate_variables", guarded(move || { clear_id(); z.recreate_variables(&mut VarMap::new()) }), &exp, &mut out, &mut ids);
            if out.is_violated() { return out; }
        }
        out
    }
}
