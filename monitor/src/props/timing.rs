//! C22 (answers independent of earlier queries; one process per history) and
//! C23 (solve / solve_all report real answers or a timeout).
use crate::core::*;
use crate::gen_prog::*;
use crate::json;
use crate::props::search::*;
use crate::rinterp::{self, Ev};
use crate::rng::*;
use crate::rt::*;
use std::collections::HashMap;
use std::rc::Rc;
use std::time::Instant;
use suiron::*;

pub const TIMEOUT_MSG: &str = "Query timed out after 1000 milliseconds.";

/// Knowledge base used by the history workloads (source text, loaded through parse_rule).
/// `depth` sizes the slow searches (12^depth combinations).
pub fn kb_source(depth: usize) -> Vec<String> {
    let mut v: Vec<String> = vec![];
    for i in 1..=12 { v.push(format!("num({}).", i)); }
    for c in ["red", "green", "blue"] { v.push(format!("color({}).", c)); }
    v.push("pair($X, $Y) :- num($X), num($Y), $X < $Y, $Y < 4.".into());
    v.push("t1($X) :- color($X).".into());
    v.push("t2($X, $Y) :- color($X), not($X = green), color($Y), print($X), nl.".into());
    v.push("t3($X) :- color($X), !.".into());
    v.push("t4($X, $L) :- color($X), append($X, [a, b], $L).".into());
    v.push("t5($X) :- not(color(purple)), num($X), $X > 10.".into());
    v.push("t6($X) :- (color($X); num($X)), print(%s., $X), $X == blue.".into());
    v.push("t7($X) :- color($X), not(t3($X)).".into());
    // print formats held in a variable, the same variable name in two predicates
    v.push("fmta(%s!).".into());
    v.push("fmtb(<%s>).".into());
    v.push("fmtb([%s]).".into());
    v.push("t8($X) :- fmta($F), color($X), print($F, $X), nl.".into());
    v.push("t9($X) :- fmtb($F), num($X), $X < 3, print($F, $X).".into());
    // list built-ins, arithmetic, recursion, a cut inside a disjunction, not over a not
    v.push("t10($L) :- append([a], [b, c], $M), count($M, $N), $L = [$N | $M].".into());
    v.push("t11($S) :- num($A), $A > 10, $S = $A * 2 .".into());
    v.push("len([], 0).".into());
    v.push("len([$H | $T], $N) :- len($T, $M), $N = $M + 1 .".into());
    v.push("t12($N) :- len([a, b, c], $N).".into());
    v.push("t13($X) :- num($X), ($X == 1; $X == 12), !.".into());
    v.push("t14($X) :- color($X), not(not($X = red)).".into());
    v.push("t15($X, $Y) :- include(f($_), [f(1), g(2), f(3)], $X), exclude(f($_), [f(1), g(2)], $Y).".into());
    // two atoms that differ only by a blank inside
    v.push("likes(Mary Ann, tea).".into());
    v.push("likes(MaryAnn, coffee).".into());
    let vars: Vec<String> = (0..depth).map(|i| format!("$N{}", i)).collect();
    let gen: String = vars.iter().map(|n| format!("num({})", n)).collect::<Vec<_>>().join(", ");
    // never succeeds, needs the whole search space to find that out
    v.push(format!("spin :- {}, {} > 100.", gen, vars[0]));
    // succeeds only on the last combination
    let last: String = vars.iter().map(|n| format!("{} == 12", n)).collect::<Vec<_>>().join(", ");
    v.push(format!("late :- {}, {}.", gen, last));
    // a search of a few seconds that then succeeds; it is driven by next_solution (no timer)
    if depth >= 2 {
        let mv: Vec<String> = (0..depth - 1).map(|i| format!("$M{}", i)).collect();
        let mgen: String = mv.iter().map(|n| format!("num({})", n)).collect::<Vec<_>>().join(", ");
        v.push(format!("spinm :- {}, {} > 100.", mgen, mv[0]));
        // the answer comes out of the search itself, at its very end: a search that is stopped
        // half way has no answer
        let lv: Vec<String> = (0..depth.saturating_sub(3).max(1)).map(|i| format!("$L{}", i)).collect();
        let lgen: String = lv.iter().map(|n| format!("num({})", n)).collect::<Vec<_>>().join(", ");
        let mlast: String = lv.iter().map(|n| format!("{} == 12", n)).collect::<Vec<_>>().join(", ");
        v.push(format!("latem :- {}, {}.", lgen, mlast));
        v.push("med($X) :- spinm, $X = never.".into());
        v.push("med($X) :- spinm, $X = never.".into());
        v.push("med($X) :- latem, $X = found.".into());
    }
    // answers first, then a long search without answers
    v.push("slow($X) :- color($X).".into());
    v.push("slow($X) :- spin, $X = never.".into());
    // no answers at all; a stopped search makes not(late) look true
    v.push("trap($X) :- not(late), color($X).".into());
    // answers, then a trap
    v.push("mixed($X) :- num($X), $X < 3.".into());
    v.push("mixed($X) :- not(late), $X = fabricated.".into());
    v
}

pub fn load_kb(depth: usize) -> KnowledgeBase {
    let mut kb = KnowledgeBase::new();
    for s in kb_source(depth) { add_rules(&mut kb, vec![parse_rule(&s).expect("kb rule")]); }
    kb
}

pub const QUERIES: [&str; 23] = ["t1($X)", "t2($A, $B)", "t3($X)", "t4($X, $L)", "t5($N)", "t6($X)", "t7($X)", "pair($P, $Q)", "num(13)",
                                 "slow($S)", "trap($T)", "mixed($M)",
                                 "t8($X)", "t9($X)", "t10($L)", "t11($S)", "t12($N)", "t13($X)", "t14($X)", "t15($X, $Y)", "med($D)", "likes(Mary Ann, $W)", "likes(MaryAnn, $W)"];
/// Steps with a query number >= ALT run `thing($X)` against a *different*, small knowledge base that is
/// built for the step and dropped after it (so that two of them are likely to live at the same
/// address one after the other): variant 0 has ground facts, variant 1 a rule with variables.
pub const ALT: usize = 100;
pub fn alt_kb(variant: usize) -> KnowledgeBase {
    let src: Vec<&str> = if variant % 2 == 0 { vec!["thing(one).", "thing(two).", "item(zero)."] } else { vec!["thing($X) :- item($X).", "thing([$H | $T]) :- item($H), $T = [].", "item(three)."] };
    let mut kb = KnowledgeBase::new();
    for s in src { add_rules(&mut kb, vec![parse_rule(s).expect("alt kb rule")]); }
    kb
}
pub fn query_text(q: usize) -> &'static str { if q >= ALT { "thing($X)" } else { QUERIES[q] } }
/// index of the query that searches for a few seconds without a timer (driven by next_solution only)
pub const MED: usize = 20;
pub const LAST_SLOW: usize = 11;
pub const FIRST_SLOW: usize = 9;

/// True answer sequences of the slow queries (known by construction).
pub fn slow_truth(q: usize) -> Vec<String> {
    match q {
        9 => vec!["$S = red".into(), "$S = green".into(), "$S = blue".into()],
        10 => vec![],
        _ => vec!["$M = 1".into(), "$M = 2".into()],
    }
}

#[derive(Clone, Debug, PartialEq)]
pub enum Driver { Ns, Abandon(usize), Reask, Solve(usize), SolveAll }

impl Driver {
    pub fn code(&self) -> String {
        match self { Driver::Ns => "ns".into(), Driver::Abandon(k) => format!("ab{}", k), Driver::Reask => "reask".into(), Driver::Solve(n) => format!("solve{}", n), Driver::SolveAll => "all".into() }
    }
    pub fn parse(s: &str) -> Driver {
        if s == "ns" { Driver::Ns } else if s == "reask" { Driver::Reask } else if s == "all" { Driver::SolveAll }
        else if let Some(k) = s.strip_prefix("ab") { Driver::Abandon(k.parse().unwrap()) }
        else { Driver::Solve(s.strip_prefix("solve").unwrap().parse().unwrap()) }
    }
}

#[derive(Clone, Debug, PartialEq)]
pub struct Obs { pub answers: Vec<String>, pub output: String, pub elapsed_ms: u128 }

fn canon_tokens(s: &str) -> String {
    // `$Name_<digits>` -> `$_G<k>` by first occurrence
    let ch: Vec<char> = s.chars().collect();
    let mut out = String::new(); let mut seen: Vec<String> = vec![]; let mut i = 0;
    while i < ch.len() {
        if ch[i] == '$' {
            let mut j = i + 1;
            while j < ch.len() && (ch[j].is_alphanumeric() || ch[j] == '_') { j += 1; }
            let tok: String = ch[i..j].iter().collect();
            let inst = tok.rfind('_').map_or(false, |p| p > 1 && p + 1 < tok.len() && tok[p + 1..].chars().all(|c| c.is_ascii_digit()));
            if inst { let k = match seen.iter().position(|t| *t == tok) { Some(k) => k, None => { seen.push(tok.clone()); seen.len() - 1 } }; out.push_str(&format!("$_G{}", k)); }
            else { out.push_str(&tok); }
            i = j;
        } else { out.push(ch[i]); i += 1; }
    }
    out
}

/// Execute one step (query text + driver) against the knowledge base.
pub fn run_step(kb: &KnowledgeBase, qtext: &str, d: &Driver) -> Obs {
    let _ = take_output();
    let t0 = Instant::now();
    let query = Rc::new(parse_query(qtext).expect("query"));
    let sn = make_base_node(Rc::clone(&query), kb);
    let mut answers = vec![];
    let show = |ss: &Rc<SubstitutionSet>| canon_tokens(&format!("{}", query.replace_variables(ss)));
    match d {
        Driver::Ns | Driver::Reask => {
            let mut n = 0;
            while let Some(ss) = next_solution(Rc::clone(&sn)) { answers.push(show(&ss)); n += 1; if n >= 200 { break; } }
            if *d == Driver::Reask {
                for _ in 0..3 { match next_solution(Rc::clone(&sn)) { Some(ss) => answers.push(format!("REASK:{}", show(&ss))), None => answers.push("REASK:None".into()) } }
            }
        }
        Driver::Abandon(k) => {
            for _ in 0..*k { match next_solution(Rc::clone(&sn)) { Some(ss) => answers.push(show(&ss)), None => { answers.push("None".into()); break; } } }
        }
        Driver::Solve(n) => {
            for _ in 0..*n {
                let s = solve(Rc::clone(&sn));
                let stop = s == "No more." || s == TIMEOUT_MSG;
                answers.push(canon_tokens(&s));
                if stop { break; }
            }
        }
        Driver::SolveAll => { for s in solve_all(Rc::clone(&sn)) { answers.push(canon_tokens(&s)); } }
    }
    Obs { answers, output: take_output(), elapsed_ms: t0.elapsed().as_millis() }
}

pub fn obs_json(o: &Obs) -> String { json::obj(&[("answers", json::strs(&o.answers)), ("output", json::esc(&o.output)), ("elapsed_ms", o.elapsed_ms.to_string())]) }

// ------------------------------------------------------------------ child process protocol

/// `worker --hist <depth> <resultfile> <q>:<driver>,<q>:<driver>,...`
pub fn hist_main(args: &[String]) -> i32 {
    let depth: usize = args[0].parse().unwrap();
    let result = &args[1];
    let steps: Vec<(usize, Driver)> = args[2].split(',').map(|s| { let (q, d) = s.split_once(':').unwrap(); (q.parse().unwrap(), Driver::parse(d)) }).collect();
    capture_stdout(&format!("{}.stdout", result));
    let kb = load_kb(depth);
    let mut lines = vec![];
    for (q, d) in &steps {
        let o = if *q >= ALT { let kb2 = Box::new(alt_kb(*q - ALT)); run_step(&kb2, query_text(*q), d) } else { run_step(&kb, QUERIES[*q], d) };
        lines.push(format!("{}\t{}\t{}", o.elapsed_ms, o.answers.join("\u{1}"), o.output.replace('\n', "\u{2}")));
    }
    std::fs::write(result, lines.join("\n")).ok();
    std::fs::remove_file(format!("{}.stdout", result)).ok();
    0
}

fn run_child(depth: usize, steps: &[(usize, Driver)], tag: &str) -> Result<Vec<Obs>, String> {
    let exe = std::env::current_exe().map_err(|e| e.to_string())?;
    let result = format!("/verif/work/hist/{}_{}_{}.res", std::process::id(), tag, mix(steps.len() as u64 ^ hash_str(tag)));
    std::fs::create_dir_all("/verif/work/hist").ok();
    let spec: String = steps.iter().map(|(q, d)| format!("{}:{}", q, d.code())).collect::<Vec<_>>().join(",");
    let mut child = std::process::Command::new(exe).args(["--hist", &depth.to_string(), &result, &spec])
        .stdout(std::process::Stdio::null()).stderr(std::process::Stdio::null()).spawn().map_err(|e| e.to_string())?;
    // generous watchdog: 20 s per step
    let limit = std::time::Duration::from_secs(90 * steps.len() as u64 + 60);
    let t0 = Instant::now();
    loop {
        match child.try_wait() {
            Ok(Some(st)) => { if !st.success() { std::fs::remove_file(&result).ok(); return Err(format!("child exited with {:?}", st.code())); } break; }
            Ok(None) => { if t0.elapsed() > limit { child.kill().ok(); child.wait().ok(); return Err("child watchdog".into()); } std::thread::sleep(std::time::Duration::from_millis(5)); }
            Err(e) => return Err(e.to_string()),
        }
    }
    let text = std::fs::read_to_string(&result).map_err(|e| e.to_string())?;
    std::fs::remove_file(&result).ok();
    let mut out = vec![];
    for line in text.split('\n') {
        let parts: Vec<&str> = line.splitn(3, '\t').collect();
        if parts.len() != 3 { return Err(format!("bad result line {:?}", line)); }
        out.push(Obs { elapsed_ms: parts[0].parse().unwrap_or(0),
                       answers: if parts[1].is_empty() { vec![] } else { parts[1].split('\u{1}').map(|s| s.to_string()).collect() },
                       output: parts[2].replace('\u{2}', "\n") });
    }
    Ok(out)
}

/// Pick a search depth such that `spin` runs for many seconds untimed on this machine.
/// The supervisor measures once, before the workers start (`worker --calibrate`), and hands
/// the result to every worker through VERIF_SLOW_DEPTH, so that all shards and all child
/// processes of one run use the same depth. The measurement takes the *minimum* of several
/// runs (a cold or loaded first run would under-size the search) and the growth factor 12
/// per level is a lower bound of the real one, so the estimate errs on the slow side.
pub fn calibrate_depth() -> usize {
    if let Ok(s) = std::env::var("VERIF_SLOW_DEPTH") { if let Ok(d) = s.parse::<usize>() { if d >= 4 && d <= 12 { return d; } } }
    measure_depth()
}

pub fn measure_depth() -> usize {
    let kb = load_kb(4);
    let mut ms4 = f64::MAX;
    for _ in 0..5 {
        let t0 = Instant::now();
        let q = Rc::new(parse_query("spin").unwrap());
        let sn = make_base_node(q, &kb);
        let _ = next_solution(sn);
        ms4 = ms4.min(t0.elapsed().as_secs_f64() * 1000.0);      // 12^4 combinations
    }
    // want >= 10 s estimated (the 1 s limit ten times over); each level multiplies by >= 12
    let mut depth = 4; let mut est = ms4.max(0.05);
    while est < 10_000.0 { depth += 1; est *= 12.0; }
    depth
}

// ------------------------------------------------------------------------- C22

pub struct C22 { depth: usize, hist: Vec<Vec<(usize, Driver)>>, baseline: HashMap<String, Obs> }

fn step_alphabet() -> Vec<(usize, Driver)> {
    vec![(0, Driver::Ns), (0, Driver::Reask), (1, Driver::Ns), (1, Driver::SolveAll), (2, Driver::Solve(3)), (3, Driver::Abandon(2)), (4, Driver::SolveAll),
         (5, Driver::Ns), (6, Driver::Reask), (7, Driver::Abandon(1)), (7, Driver::SolveAll), (8, Driver::Solve(2)),
         (9, Driver::SolveAll), (9, Driver::Solve(5)), (10, Driver::Solve(1)), (11, Driver::SolveAll),
         (12, Driver::Ns), (13, Driver::SolveAll), (13, Driver::Abandon(1)), (14, Driver::Solve(2)), (15, Driver::Ns), (16, Driver::SolveAll), (17, Driver::Reask), (18, Driver::Ns), (19, Driver::SolveAll), (MED, Driver::Ns),
         (21, Driver::Ns), (22, Driver::SolveAll), (ALT, Driver::Ns), (ALT + 1, Driver::SolveAll)]
}

impl C22 {
    pub fn new(tier: Tier, seed: u64) -> C22 {
        let depth = calibrate_depth();
        let alpha = step_alphabet();
        let mut hist: Vec<Vec<(usize, Driver)>> = vec![];
        for a in &alpha { for b in &alpha { hist.push(vec![a.clone(), b.clone()]); } }
        // triples over a sub-alphabet that has every driver kind and one timed-out step
        let sub: Vec<(usize, Driver)> = [0usize, 3, 4, 5, 8, 13].iter().map(|i| alpha[*i].clone()).collect();
        for a in &sub { for b in &sub { for c in &sub { hist.push(vec![a.clone(), b.clone(), c.clone()]); } } }
        let n_rand = if tier == Tier::Quick { 60 } else { 1500 };
        let mut r = Rng::for_case(seed, 22, 0);
        for _ in 0..n_rand {
            let n = r.range(3, 6);
            let mut h = vec![];
            for _ in 0..n {
                let q = if r.chance(1, 8) { ALT + r.below(2) } else { r.below(QUERIES.len()) };
                let d = if q == MED { Driver::Ns } else if q >= FIRST_SLOW && q <= LAST_SLOW { if r.chance(1, 2) { Driver::SolveAll } else { Driver::Solve(r.range(1, 5)) } }
                        else { match r.below(5) { 0 => Driver::Ns, 1 => Driver::Abandon(r.range(1, 3)), 2 => Driver::Reask, 3 => Driver::Solve(r.range(1, 6)), _ => Driver::SolveAll } };
                h.push((q, d));
            }
            hist.push(h);
        }
        C22 { depth, hist, baseline: HashMap::new() }
    }
    fn show(&self, h: &[(usize, Driver)]) -> String { h.iter().map(|(q, d)| format!("{}{} via {}", query_text(*q), if *q >= ALT { format!(" on small knowledge base #{}", *q - ALT) } else { String::new() }, d.code())).collect::<Vec<_>>().join(" ; ") }
}

impl Workload for C22 {
    fn total(&self) -> u64 { self.hist.len() as u64 }
    fn rule(&self) -> String {
        format!("one fresh process per history; histories: all ordered pairs over a 30-step alphabet (23 queries on the main knowledge base - two of them differ only by a blank inside an atom - plus one query on two small knowledge bases that are built and dropped per step; incl. one that searches for seconds without a timer and incl. not/cut/print with constant and variable-held formats/append/count/include/arithmetic/recursion and three that exceed the 1 s limit; drivers next_solution to exhaustion, k answers then abandon, re-ask 3x after exhaustion, solve x n, solve_all), all triples over a 6-step sub-alphabet, plus seeded random histories of 3-6 steps; oracle: every step's answers and output equal those of the same (query, driver) run as the first action of a fresh process; slow searches are sized at run time (12^{} combinations); non-trivial when the history contains a timed-out, abandoned or re-asked step before its last step; distinct by history text", self.depth)
    }
    fn exhaustive_part(&self) -> Option<String> { Some("all 900 ordered step pairs and all 216 triples over the sub-alphabet".into()) }
    fn describe(&mut self, idx: u64) -> String { json::obj(&[("history", json::esc(&self.show(&self.hist[idx as usize].clone())))]) }
    fn run(&mut self, idx: u64) -> Outcome {
        let h = self.hist[idx as usize].clone();
        let text = self.show(&h);
        let mut out = Outcome::new(hash_str(&text));
        out.evals = 0;
        out.sample = json::obj(&[("history", json::esc(&text))]);
        out.nontrivial = h[..h.len() - 1].iter().any(|(q, d)| (*q >= FIRST_SLOW && *q <= LAST_SLOW) || matches!(d, Driver::Abandon(_) | Driver::Reask));
        // baselines (fresh process, single step)
        for (q, d) in &h {
            let key = format!("{}:{}", q, d.code());
            if !self.baseline.contains_key(&key) {
                match run_child(self.depth, &[(*q, d.clone())], "base") {
                    Ok(mut o) => {
                        let b = o.remove(0);
                        // a fast query whose baseline reports a timeout after a real second was stalled by the machine: do not keep it
                        if !(*q >= FIRST_SLOW && *q <= LAST_SLOW) && b.answers.iter().any(|a| a == TIMEOUT_MSG) && b.elapsed_ms >= 1000 {
                            out.verdict = Verdict::Inconclusive(format!("baseline of a fast query really took {} ms (machine stall)", b.elapsed_ms)); return out;
                        }
                        self.baseline.insert(key, b); out.count("baseline_processes", 1);
                    }
                    Err(e) => { out.verdict = Verdict::Inconclusive(format!("baseline process failed: {}", e)); return out; }
                }
            }
        }
        let obs = match run_child(self.depth, &h, "hist") {
            Ok(o) => o,
            Err(e) if e.starts_with("child exited") => {
                // every step ran fine as the first action of a fresh process (the baselines exist); a
                // history process that dies, twice, is an observation about the history
                match run_child(self.depth, &h, "hist2") {
                    Ok(o) => { out.count("history_process_died_once", 1); o }
                    Err(e2) if e2.starts_with("child exited") => {
                        out.evals += 1;
                        out.violate(format!("history-died|{}", text), json::obj(&[("kind", json::esc("the process running the history died (panic or abort), twice, although every step alone runs fine in a fresh process")), ("history", json::esc(&text)), ("detail", json::esc(&format!("{} / {}", e, e2)))]));
                        return out;
                    }
                    Err(e2) => { out.verdict = Verdict::Inconclusive(format!("history process failed: {}", e2)); return out; }
                }
            }
            Err(e) => { out.verdict = Verdict::Inconclusive(format!("history process failed: {}", e)); return out; }
        };
        out.count("history_processes", 1);
        for (i, ((q, d), o)) in h.iter().zip(&obs).enumerate() {
            out.evals += 1;
            let b = &self.baseline[&format!("{}:{}", q, d.code())];
            if o.answers.iter().any(|a| a == TIMEOUT_MSG) { out.count("timed_out_steps", 1); }
            if b.answers != o.answers || b.output != o.output {
                // a fast step that reports a timeout only in the history although >= 1 s really passed is a machine stall
                if !(*q >= FIRST_SLOW && *q <= LAST_SLOW) && o.answers.iter().any(|a| a == TIMEOUT_MSG) && o.elapsed_ms >= 1000 && !b.answers.iter().any(|a| a == TIMEOUT_MSG) {
                    out.verdict = Verdict::Inconclusive(format!("step {} really took {} ms (machine stall)", i + 1, o.elapsed_ms)); return out;
                }
                out.violate(format!("history|{}|step{}", text, i + 1),
                    json::obj(&[("kind", json::esc("a step's observations differ from the fresh-process baseline")), ("history", json::esc(&text)), ("step", (i + 1).to_string()),
                                ("query", json::esc(query_text(*q))), ("driver", json::esc(&d.code())), ("baseline", obs_json(b)), ("in_history", obs_json(o))]));
                return out;
            }
        }
        out
    }
}

// ------------------------------------------------------------------------- C23

pub struct C23 { depth: usize, seed: u64, n_fast: u64, slow: Vec<(usize, Driver)>, kb: KnowledgeBase }

impl C23 {
    pub fn new(tier: Tier, seed: u64) -> C23 {
        let depth = calibrate_depth();
        let mut slow = vec![];
        let reps = if tier == Tier::Quick { 1 } else { 8 };
        for _ in 0..reps {
            for q in FIRST_SLOW..=LAST_SLOW { slow.push((q, Driver::SolveAll)); slow.push((q, Driver::Solve(6))); }
        }
        // a query prepared (built, node made) *before* another query times out, asked afterwards
        for _ in 0..reps { for f in [0usize, 2, 7, 14] { slow.push((1000 + f, Driver::Solve(2))); slow.push((1000 + f, Driver::SolveAll)); } }
        C23 { depth, seed, n_fast: if tier == Tier::Quick { 30_000 } else { 300_000 }, slow, kb: load_kb(depth) }
    }
}

impl C23 {
    /// The fast query `f` is built and its solution node made; then `slow($S)` is built and
    /// driven by solve_all until it times out; then the prepared node is asked. The fast
    /// search finishes in microseconds and must be reported with its true answers.
    fn prepared_case(&mut self, f: usize, d: &Driver, k: usize) -> Outcome {
        let mut out = Outcome::new(hash_str(&format!("prepared {} {} {}", f, d.code(), k)));
        out.nontrivial = true;
        out.sample = json::obj(&[("prepared_query", json::esc(QUERIES[f])), ("driver", json::esc(&d.code())), ("then", json::esc("slow($S) via solve_all until it times out, then the prepared node is asked"))]);
        let kb = &self.kb;
        let r = guarded(|| {
            let _ = take_output();
            // the truth for the prepared query: the same query in a run of its own
            let truth = run_step(kb, QUERIES[f], d);
            let fq = Rc::new(parse_query(QUERIES[f]).expect("query"));
            let fnode = make_base_node(Rc::clone(&fq), kb);
            let slow = run_step(kb, QUERIES[FIRST_SLOW], &Driver::SolveAll);
            let _ = take_output();
            let t0 = Instant::now();
            let mut got: Vec<String> = vec![];
            match d {
                Driver::SolveAll => { for s in solve_all(Rc::clone(&fnode)) { got.push(canon_tokens(&s)); } }
                Driver::Solve(n) => { for _ in 0..*n { let s = solve(Rc::clone(&fnode)); let stop = s == "No more." || s == TIMEOUT_MSG; got.push(canon_tokens(&s)); if stop { break; } } }
                _ => {}
            }
            let ms = t0.elapsed().as_millis();
            let output = take_output();
            (truth, slow, got, ms, output)
        });
        let (truth, slow, got, ms, output) = match r { Ok(x) => x, Err(p) => { out.violate(format!("panic-prepared|{}", QUERIES[f]), json::obj(&[("kind", json::esc("panic")), ("detail", json::esc(&p.msg))])); return out; } };
        if !slow.answers.iter().any(|a| a == TIMEOUT_MSG) { out.verdict = Verdict::Inconclusive("the slow query did not time out".into()); return out; }
        out.count("timer_fired", 1);
        let wit = |kind: &str| json::obj(&[("kind", json::esc(kind)), ("prepared_query", json::esc(QUERIES[f])), ("driver", json::esc(&d.code())), ("returned", json::strs(&got)), ("expected", json::strs(&truth.answers)), ("elapsed_ms", ms.to_string())]);
        if got.iter().any(|s| s == TIMEOUT_MSG) {
            if ms >= 1000 { out.verdict = Verdict::Inconclusive(format!("the prepared query really took {} ms (machine stall)", ms)); return out; }
            out.violate(format!("prepared-timeout|{}|{}", QUERIES[f], d.code()), wit("a search that finished within the limit is reported as timed out (query prepared before another query timed out)")); return out;
        }
        if got != truth.answers || output != truth.output {
            out.violate(format!("prepared-answers|{}|{}", QUERIES[f], d.code()), wit("a query prepared before another query timed out gives other answers afterwards")); return out;
        }
        out.count("prepared_queries_answered_correctly_after_a_timeout", 1);
        out
    }
}

impl Workload for C23 {
    fn total(&self) -> u64 { self.n_fast + self.slow.len() as u64 }
    fn rule(&self) -> String {
        format!("{} fast cases: generated programs of the C01 corpus, solve_all and repeated solve under the real 1 s timer thread, compared with the reference answer sequence (complete, no timeout message); {} slow cases (incl. 8 per repetition in which a fast query is prepared - built, node made - before another query times out, and asked afterwards: true answers, no timeout): three queries whose search is sized at run time to exceed the limit several times over (answers first then a long silent search; a not(...) over a search that succeeds only at its very end, so that a stopped search would fabricate answers), driven by solve_all and repeated solve while the other cores run the same workload; oracle: (a) every returned string is the next element of the true answer sequence, (b) no timeout message => sequence complete, (c) timeout message => monotonic elapsed time >= 1000 ms, (d) a fast query reported as timed out with >= 1000 ms really elapsed is inconclusive (machine stall); non-trivial when the query has >= 2 answers or is a slow case; distinct by program/query text (+ repetition number for slow cases)",
                self.n_fast, self.slow.len())
    }
    fn describe(&mut self, idx: u64) -> String {
        if idx < self.n_fast { case_json(&random_case(self.seed, 123, idx, Feat { fail: true, anon: true, builtins: true, not: true, cut: true, ..Feat::default() })) }
        else { let (q, d) = &self.slow[(idx - self.n_fast) as usize]; let q = &(if *q >= 1000 { *q - 1000 } else { *q }); json::obj(&[("query", json::esc(QUERIES[*q])), ("driver", json::esc(&d.code())), ("depth", self.depth.to_string())]) }
    }
    fn run(&mut self, idx: u64) -> Outcome {
        if idx >= self.n_fast {
            let k = (idx - self.n_fast) as usize;
            let (q, d) = self.slow[k].clone();
            if q >= 1000 { return self.prepared_case(q - 1000, &d, k); }
            let mut out = Outcome::new(hash_str(&format!("slow {} {} {}", q, d.code(), k)));
            out.nontrivial = true;
            out.sample = json::obj(&[("query", json::esc(QUERIES[q])), ("driver", json::esc(&d.code())), ("search_space", json::esc(&format!("12^{}", self.depth)))]);
            let o = match guarded(|| run_step(&self.kb, QUERIES[q], &d)) { Ok(o) => o, Err(p) => { out.violate(format!("panic|{}", QUERIES[q]), json::obj(&[("kind", json::esc("panic")), ("detail", json::esc(&p.msg))])); return out; } };
            let truth = slow_truth(q);
            let wit = |kind: &str| json::obj(&[("kind", json::esc(kind)), ("query", json::esc(QUERIES[q])), ("driver", json::esc(&d.code())), ("observed", obs_json(&o)), ("true_answers", json::strs(&truth))]);
            let timed_out = o.answers.last().map_or(false, |a| a == TIMEOUT_MSG);
            let real: Vec<&String> = o.answers.iter().filter(|a| *a != TIMEOUT_MSG && *a != "No more.").collect();
            // (a) prefix of the true sequence
            for (i, a) in real.iter().enumerate() {
                if truth.get(i) != Some(*a) { out.violate(format!("fabricated|{}|{}", QUERIES[q], d.code()), wit("a reported answer is not the next true answer")); return out; }
            }
            if o.answers.iter().filter(|a| *a == TIMEOUT_MSG).count() > 1 || (o.answers.iter().any(|a| a == TIMEOUT_MSG) && !timed_out) {
                out.violate(format!("order|{}|{}", QUERIES[q], d.code()), wit("timeout message is not the last element")); return out;
            }
            if timed_out {
                out.count("timer_fired", 1);
                // (c) sound under any load: the timer is started inside the call
                if o.elapsed_ms < 1000 { out.violate(format!("early|{}|{}", QUERIES[q], d.code()), wit("timeout reported before 1000 ms had passed")); return out; }
            } else {
                // (b) complete
                out.count("slow_case_finished_without_timeout", 1);
                if real.len() != truth.len() { out.violate(format!("incomplete|{}|{}", QUERIES[q], d.code()), wit("no timeout message but the answer sequence is incomplete")); return out; }
            }
            out.count("answers_before_timeout", real.len() as u64);
            return out;
        }
        // fast part
        let c = random_case(self.seed, 123, idx, Feat { fail: true, anon: true, builtins: true, not: true, cut: true, ..Feat::default() });
        let mut out = Outcome::new(hash_str(&c.text()));
        out.sample = case_json(&c);
        let refr = match rinterp::solve(&c.prog, &c.qname, &c.qargs, 20_000, MAX_ANSWERS) {
            Ok(r) if r.complete => r,
            _ => { out.evals = 0; out.verdict = Verdict::Skipped("outside the statements' domain / too many answers"); return out; }
        };
        out.nontrivial = refr.stats.answers >= 2;
        let kb = crate::adapter::program_to_kb(&c.prog);
        let eng = run_engine(&c, &kb, MAX_ANSWERS + 1, 0);
        if eng.panic.is_some() || !eng.exhausted { out.evals = 0; out.verdict = Verdict::Skipped("engine run by next_solution did not finish (reported by C01)"); return out; }
        if compare(&refr, &eng, false).is_err() { out.evals = 0; out.verdict = Verdict::Skipped("next_solution answers differ from the reference (reported by C01)"); return out; }
        let mut want: Vec<String> = vec![];
        for vals in &eng.shown {
            let mut parts = vec![];
            for (a, v) in c.qargs.iter().zip(vals) { if let T::Var(n, _) = a { parts.push(format!("{} = {}", n, v)); } }
            want.push(canon_tokens(&parts.join(", ")));
        }
        let n_ans = refr.events.iter().filter(|e| matches!(e, Ev::Ans(_))).count();
        debug_assert_eq!(n_ans, want.len());
        let wit = |kind: &str, got: &[String], ms: u128| json::obj(&[("kind", json::esc(kind)), ("case", case_json(&c)), ("returned", json::strs(got)), ("expected", json::strs(&want)), ("elapsed_ms", ms.to_string())]);
        // solve_all
        let t0 = Instant::now();
        let query = Rc::new(query_goal(&c));
        let got: Vec<String> = solve_all(make_base_node(Rc::clone(&query), &kb)).iter().map(|s| canon_tokens(s)).collect();
        let ms = t0.elapsed().as_millis();
        let _ = take_output();
        if got.iter().any(|s| s == TIMEOUT_MSG) {
            if ms >= 1000 { out.verdict = Verdict::Inconclusive(format!("fast query really took {} ms (machine stall)", ms)); return out; }
            out.violate(format!("spurious-timeout|{}", c.text()), wit("a search that finished within the limit is reported as timed out", &got, ms)); return out;
        }
        if got != want { out.violate(format!("solve_all|{}", c.text()), wit("solve_all differs from the answer sequence", &got, ms)); return out; }
        // repeated solve
        out.evals += 1;
        let t0 = Instant::now();
        let sn = make_base_node(Rc::new(query_goal(&c)), &kb);
        let mut got2 = vec![];
        for _ in 0..want.len() + 1 { got2.push(canon_tokens(&solve(Rc::clone(&sn)))); }
        let ms = t0.elapsed().as_millis();
        let _ = take_output();
        let mut want2 = want.clone(); want2.push("No more.".into());
        if got2.iter().any(|s| s == TIMEOUT_MSG) {
            if ms >= 1000 { out.verdict = Verdict::Inconclusive(format!("fast query really took {} ms (machine stall)", ms)); return out; }
            out.violate(format!("spurious-timeout-solve|{}", c.text()), wit("solve reports a timeout for a search that finished within the limit", &got2, ms)); return out;
        }
        if got2 != want2 { out.violate(format!("solve|{}", c.text()), wit("repeated solve differs from the answer sequence", &got2, ms)); return out; }
        out.count("fast_queries_complete_without_timeout", 1);
        out
    }
}
