//! C06 (mgu vs reference), C07 (symmetry), C08 (no cycles), C09 (`$_`): direct API workloads.
use crate::adapter::*;
use crate::core::*;
use crate::gen_terms::*;
use crate::json;
use crate::rng::*;
use crate::rt::*;
use crate::runify::*;
use std::rc::Rc;
use suiron::*;

pub type Ss = Rc<SubstitutionSet<'static>>;

pub struct UEnv { pub vars: Vec<&'static str>, pub ids: VarIds }

impl UEnv {
    pub fn new(vars: &[&'static str]) -> UEnv {
        let mut ids = VarIds::new();
        for v in vars { ids.id(v, 0); }
        UEnv { vars: vars.to_vec(), ids }
    }
    pub fn su(&mut self, t: &T) -> Unifiable { to_su(t, &mut Ids::Map(&mut self.ids)) }
    pub fn var_su(&mut self, name: &str) -> Unifiable { self.su(&var(name)) }
}

pub fn empty() -> Ss { Rc::new(SubstitutionSet::new()) }

/// Bounded cycle detection over the whole binding graph (variable -> variables occurring in
/// its value). Never follows more than len*len edges, so the monitor itself cannot hang.
pub fn cycle_in(ss: &SubstitutionSet) -> Option<String> {
    fn ids_in(u: &Unifiable, out: &mut Vec<usize>) {
        match u {
            Unifiable::LogicVar { id, .. } => out.push(*id),
            Unifiable::SComplex(v) => for x in v { ids_in(x, out) },
            Unifiable::SFunction { terms, .. } => for x in terms { ids_in(x, out) },
            Unifiable::SLinkedList { term, next, .. } => { ids_in(term, out); ids_in(next, out); }
            _ => {}
        }
    }
    let n = ss.len();
    let mut edges: Vec<Vec<usize>> = vec![vec![]; n];
    for (i, e) in ss.iter().enumerate() {
        if let Some(v) = e { ids_in(v, &mut edges[i]); }
    }
    // colour DFS, iterative
    let mut colour = vec![0u8; n];
    for start in 0..n {
        if colour[start] != 0 { continue; }
        let mut stack: Vec<(usize, usize)> = vec![(start, 0)];
        colour[start] = 1;
        while let Some(&(node, k)) = stack.last() {
            if k < edges[node].len() {
                stack.last_mut().unwrap().1 += 1;
                let nx = edges[node][k];
                if nx >= n { continue; }
                if colour[nx] == 1 {
                    let path: Vec<String> = stack.iter().map(|(a, _)| a.to_string()).collect();
                    return Some(format!("binding cycle through ids {} -> {}", path.join(" -> "), nx));
                }
                if colour[nx] == 0 { colour[nx] = 1; stack.push((nx, 0)); }
            } else {
                colour[node] = 2;
                stack.pop();
            }
        }
    }
    None
}

pub fn bound_entries(ss: &SubstitutionSet) -> usize { ss.iter().filter(|e| e.is_some()).count() }

/// Resolved values of the universe variables in the engine's set (only call when acyclic).
pub fn engine_tuple(env: &mut UEnv, ss: &Ss) -> Result<Vec<T>, Panic> {
    let vars = env.vars.clone();
    let mut out = vec![];
    for v in vars {
        let u = env.var_su(v);
        let r = guarded(|| u.replace_variables(ss))?;
        out.push(from_su(&r));
    }
    Ok(out)
}

pub fn ref_tuple(env: &UEnv, s: &Subst) -> Vec<T> { env.vars.iter().map(|v| s.resolve(&var(v))).collect() }

/// `$_` positions match anything.
pub fn same_mod_anon(a: &T, b: &T) -> bool {
    match (a, b) {
        (T::Anon, _) | (_, T::Anon) => true,
        (T::Cplx(f, x), T::Cplx(g, y)) => f == g && x.len() == y.len() && x.iter().zip(y).all(|(p, q)| same_mod_anon(p, q)),
        (T::List(e1, t1), T::List(e2, t2)) => {
            let k = e1.len().min(e2.len());
            if !e1[..k].iter().zip(&e2[..k]).all(|(p, q)| same_mod_anon(p, q)) { return false; }
            // what is left on each side after the common prefix
            let (l1, l2) = (&e1[k..], &e2[k..]);
            let is_empty_tail = |t: &Option<Box<T>>| match t { None => true, Some(x) => matches!(**x, T::Anon) || matches!(&**x, T::List(e, None) if e.is_empty()) };
            match (l1.is_empty(), l2.is_empty()) {
                (true, true) => match (t1, t2) {
                    (Some(x), Some(y)) => same_mod_anon(x, y),
                    _ => is_empty_tail(t1) && is_empty_tail(t2),
                },
                // elements left on one side only: the other side's tail must be a wildcard
                (true, false) => matches!(t1, Some(x) if **x == T::Anon),
                (false, true) => matches!(t2, Some(x) if **x == T::Anon),
                (false, false) => unreachable!(),
            }
        }
        _ => same(a, b),
    }
}

#[derive(Clone)]
pub struct Prior { pub steps: Vec<(T, T)>, pub ss: Ss, pub s: Subst }

pub fn show_steps(steps: &[(T, T)]) -> String {
    steps.iter().map(|(a, b)| format!("{} = {}", show(a), show(b))).collect::<Vec<_>>().join(", ")
}

/// Reference run of one unification in both argument orders.
pub struct RefRun { pub ok: bool, pub s: Subst, pub occurs: bool, pub ambiguous: bool }

pub fn ref_unify(env: &UEnv, prior: &Subst, a: &T, b: &T) -> RefRun {
    let vars: Vec<T> = env.vars.iter().map(|v| var(v)).collect();
    ref_unify_on(&vars, prior, a, b)
}

/// Same, with the variables whose resolved values define "the result" given explicitly.
pub fn ref_unify_on(vars: &[T], prior: &Subst, a: &T, b: &T) -> RefRun {
    let mut s = prior.clone();
    s.rtl = false; s.occurs_needed = false;
    let ok = s.unify(a, b);
    let mut s2 = prior.clone();
    s2.rtl = true; s2.occurs_needed = false;
    let ok2 = s2.unify(a, b);
    let occurs = s.occurs_needed || s2.occurs_needed;
    let mut ambiguous = ok != ok2;
    if ok && ok2 && !occurs {
        let t1 = canon_vars(&vars.iter().map(|v| s.resolve(v)).collect::<Vec<_>>());
        let t2 = canon_vars(&vars.iter().map(|v| s2.resolve(v)).collect::<Vec<_>>());
        if !same_vec(&t1, &t2) { ambiguous = true; }
    }
    s.rtl = false;
    RefRun { ok, s, occurs, ambiguous }
}

pub fn engine_unify(a: &Unifiable, b: &Unifiable, ss: &Ss) -> Result<Option<Ss>, Panic> {
    guarded(|| a.unify(b, ss))
}

fn witness(kind: &str, steps: &[(T, T)], a: &T, b: &T, detail: &str) -> String {
    json::obj(&[("kind", json::esc(kind)), ("prior", json::esc(&show_steps(steps))),
                ("left", json::esc(&show(a))), ("right", json::esc(&show(b))), ("detail", json::esc(detail))])
}

/// Signature: the failing input itself with variables canonicalised.
fn sig(kind: &str, steps: &[(T, T)], a: &T, b: &T) -> String {
    let mut all: Vec<T> = vec![];
    for (x, y) in steps { all.push(x.clone()); all.push(y.clone()); }
    all.push(a.clone()); all.push(b.clone());
    let c = canon_vars(&all);
    format!("{}|{}", kind, c.iter().map(show).collect::<Vec<_>>().join("|"))
}

/// The C06 oracle for one unification under a prior. Returns the engine's and reference's
/// new state when both succeeded and everything held.
pub fn check_c06(env: &mut UEnv, prior: &Prior, a: &T, b: &T, out: &mut Outcome) -> Option<(Ss, Subst)> {
    let rr = ref_unify(env, &prior.s, a, b);
    if rr.occurs { out.count("skipped_occurs_check", 1); return None; }
    if rr.ambiguous { out.count("skipped_wildcard_order_dependent", 1); return None; }
    out.count("unifications", 1);
    let ua = env.su(a); let ub = env.su(b);
    let res = match engine_unify(&ua, &ub, &prior.ss) {
        Ok(r) => r,
        Err(p) => {
            out.violate(sig("panic", &prior.steps, a, b), witness("engine panicked", &prior.steps, a, b, &format!("{} at {}", p.msg, p.loc)));
            return None;
        }
    };
    match (&res, rr.ok) {
        (None, false) => { out.count("both_fail", 1); return None; }
        (Some(_), false) => {
            out.violate(sig("succeeds", &prior.steps, a, b), witness("engine succeeds, no unifier exists", &prior.steps, a, b, ""));
            return None;
        }
        (None, true) => {
            out.violate(sig("fails", &prior.steps, a, b),
                        witness("engine fails, a unifier exists", &prior.steps, a, b,
                                &format!("reference: {}", ref_tuple(env, &rr.s).iter().map(show).collect::<Vec<_>>().join(", "))));
            return None;
        }
        _ => {}
    }
    let ss = res.unwrap();
    out.count("both_succeed", 1);
    if let Some(c) = cycle_in(&ss) {
        out.violate(sig("cycle", &prior.steps, a, b), witness("cyclic bindings", &prior.steps, a, b, &c));
        return None;
    }
    // earlier bindings are kept
    for (i, e) in prior.ss.iter().enumerate() {
        if let Some(v) = e {
            let kept = match ss.get(i) { Some(Some(w)) => **w == **v, _ => false };
            if !kept {
                out.violate(sig("lost", &prior.steps, a, b), witness("an earlier binding was lost or changed", &prior.steps, a, b, &format!("id {}", i)));
                return None;
            }
        }
    }
    let et = match engine_tuple(env, &ss) {
        Ok(t) => t,
        Err(p) => { out.violate(sig("panic-resolve", &prior.steps, a, b), witness("resolving panicked", &prior.steps, a, b, &p.msg)); return None; }
    };
    let rt = ref_tuple(env, &rr.s);
    if !same_vec(&canon_vars(&et), &canon_vars(&rt)) {
        out.violate(sig("mgu", &prior.steps, a, b),
                    witness("resolved values differ from the most general unifier", &prior.steps, a, b,
                            &format!("engine ({}) reference ({})", et.iter().map(show).collect::<Vec<_>>().join(", "),
                                     rt.iter().map(show).collect::<Vec<_>>().join(", "))));
        return None;
    }
    // both terms identical when resolved (wildcards excepted)
    let ra = guarded(|| from_su(&ua.replace_variables(&ss)));
    let rb = guarded(|| from_su(&ub.replace_variables(&ss)));
    if let (Ok(ra), Ok(rb)) = (ra, rb) {
        if !same_mod_anon(&ra, &rb) {
            out.violate(sig("notequal", &prior.steps, a, b), witness("terms differ after resolution", &prior.steps, a, b, &format!("{} vs {}", show(&ra), show(&rb))));
            return None;
        }
    }
    Some((ss, rr.s))
}

/// Build priors by running sequences through check_c06; sequences on which engine and
/// reference agree become priors.
pub fn build_priors(env: &mut UEnv, seqs: &[Vec<(T, T)>], max: usize) -> Vec<Prior> {
    let mut priors = vec![Prior { steps: vec![], ss: empty(), s: Subst::new() }];
    for steps in seqs {
        if priors.len() > max { break; }
        let mut cur = priors[0].clone();
        let mut ok = true;
        for (a, b) in steps {
            let mut o = Outcome::new(0);
            match check_c06(env, &cur, a, b, &mut o) {
                Some((ss, s)) => { cur = Prior { steps: { let mut v = cur.steps.clone(); v.push((a.clone(), b.clone())); v }, ss, s }; }
                None => { ok = false; break; }
            }
        }
        if ok && !cur.steps.is_empty() { priors.push(cur); }
    }
    priors
}

pub fn prior_sequences(vars: &[&'static str], uni: &[T], seed: u64, n_random: usize) -> Vec<Vec<(T, T)>> {
    let x = var(vars[0]); let y = var(vars[1]); let z = var(vars[2]);
    let mut seqs = vec![
        vec![(x.clone(), atom("a"))],
        vec![(x.clone(), y.clone())],
        vec![(y.clone(), x.clone())],
        vec![(x.clone(), y.clone()), (y.clone(), z.clone())],
        vec![(x.clone(), mk_list(vec![atom("a")], Some(y.clone())))],
        vec![(y.clone(), cplx("f", vec![z.clone()]))],
        vec![(x.clone(), list(vec![]))],
        vec![(x.clone(), cplx("f", vec![T::Anon]))],
        vec![(z.clone(), list(vec![x.clone(), y.clone()])), (x.clone(), T::Int(1))],
        vec![(x.clone(), y.clone()), (y.clone(), atom("b"))],
        vec![(mk_list(vec![x.clone()], Some(y.clone())), list(vec![atom("a"), atom("b")]))],
        vec![(cplx("f", vec![x.clone(), y.clone()]), cplx("f", vec![y.clone(), z.clone()]))],
    ];
    let mut r = Rng::for_case(seed, 77, 0);
    for _ in 0..n_random {
        let n = r.range(1, 3);
        let mut s = vec![];
        for _ in 0..n {
            let a = if r.chance(2, 3) { var(vars[r.below(vars.len())]) } else { r.pick(uni).clone() };
            let b = r.pick(uni).clone();
            s.push((a, b));
        }
        seqs.push(s);
    }
    seqs
}

fn nontrivial_pair(a: &T, b: &T) -> bool { (a.has_var() || b.has_var()) && a != b }

// ------------------------------------------------------------------------- C06

pub struct C06 { env: UEnv, uni: Vec<T>, seqs: Vec<Vec<(T, T)>>, priors: Vec<Prior>, n_rand: u64, seed: u64, deep_vars: Vec<&'static str> }

impl C06 {
    pub fn new(tier: Tier, seed: u64) -> C06 {
        let vars: Vec<&'static str> = if tier == Tier::Quick { vec!["$X", "$Y", "$Z"] } else { vec!["$X", "$Y", "$Z", "$W"] };
        let mut env = UEnv::new(&vars);
        let uni = universe(&vars, tier == Tier::Thorough);
        let mut seqs = prior_sequences(&vars, &uni, seed, if tier == Tier::Quick { 30 } else { 80 });
        let priors = build_priors(&mut env, &seqs, if tier == Tier::Quick { 8 } else { 20 });
        // every sequence of up to three variable-to-variable unifications (in every id order), and
        // each of them followed by one unification with a constant: the mgu property over aliasing chains
        let mut vpairs: Vec<(T, T)> = vec![];
        for a in &vars { for b in &vars { vpairs.push((var(a), var(b))); } }
        let maxlen = 3;
        let mut layer: Vec<Vec<(T, T)>> = vec![vec![]];
        for _ in 0..maxlen {
            let mut next = vec![];
            for sq in &layer { for p in &vpairs { let mut n = sq.clone(); n.push(p.clone()); next.push(n); } }
            for sq in &next { seqs.push(sq.clone()); let mut withc = sq.clone(); withc.push((var(vars[0]), atom("a"))); seqs.push(withc); }
            layer = next;
        }
        let n_rand = if tier == Tier::Quick { 400_000 } else { 3_000_000 };
        C06 { env, uni, seqs, priors, n_rand, seed, deep_vars: vars }
    }
    fn n_pairs(&self) -> u64 { (self.uni.len() * self.uni.len()) as u64 }
}

impl Workload for C06 {
    fn total(&self) -> u64 { self.seqs.len() as u64 + self.n_pairs() + self.n_rand }
    fn rule(&self) -> String {
        format!("sequence cases ({}), then every ordered pair of the {}-term universe checked under {} engine-produced prior sets (empty + sequences that passed), then {} seeded random deeper pairs under a random prior; a case is non-trivial when a side contains a variable and the sides differ; distinct by canonical text of (prior, left, right)",
                self.seqs.len(), self.uni.len(), self.priors.len(), self.n_rand)
    }
    fn exhaustive_part(&self) -> Option<String> { Some(format!("all {} ordered pairs of the universe x {} priors", self.n_pairs(), self.priors.len())) }
    fn describe(&mut self, idx: u64) -> String {
        match self.pick(idx) {
            C06Case::Seq(steps) => json::obj(&[("sequence", json::esc(&show_steps(&steps)))]),
            C06Case::Pair(a, b) => json::obj(&[("left", json::esc(&show(&a))), ("right", json::esc(&show(&b))), ("priors", self.priors.len().to_string())]),
            C06Case::Rand(p, a, b) => json::obj(&[("prior", json::esc(&show_steps(&self.priors[p].steps))), ("left", json::esc(&show(&a))), ("right", json::esc(&show(&b)))]),
        }
    }
    fn run(&mut self, idx: u64) -> Outcome {
        let sample = self.describe(idx);
        match self.pick(idx) {
            C06Case::Seq(steps) => {
                let mut out = Outcome::new(hash_str(&format!("seq {}", show_steps(&steps))));
                out.evals = 0;
                let mut cur = self.priors[0].clone();
                for (a, b) in &steps {
                    out.evals += 1;
                    match check_c06(&mut self.env, &cur, a, b, &mut out) {
                        Some((ss, s)) => { let mut st = cur.steps.clone(); st.push((a.clone(), b.clone())); cur = Prior { steps: st, ss, s }; }
                        None => break,
                    }
                }
                out.nontrivial = steps.len() > 1;
                out.sample = sample;
                out
            }
            C06Case::Pair(a, b) => {
                let mut out = Outcome::new(hash_str(&format!("{} ~ {}", show(&a), show(&b))));
                out.evals = 0;
                out.nontrivial = nontrivial_pair(&a, &b);
                for k in 0..self.priors.len() {
                    let p = self.priors[k].clone();
                    out.evals += 1;
                    check_c06(&mut self.env, &p, &a, &b, &mut out);
                    if out.is_violated() { break; }
                }
                out.sample = sample;
                out
            }
            C06Case::Rand(pi, a, b) => {
                let p = self.priors[pi].clone();
                let mut out = Outcome::new(hash_str(&format!("{} | {} ~ {}", show_steps(&p.steps), show(&a), show(&b))));
                out.nontrivial = nontrivial_pair(&a, &b);
                check_c06(&mut self.env, &p, &a, &b, &mut out);
                out.sample = sample;
                out
            }
        }
    }
}

pub enum C06Case { Seq(Vec<(T, T)>), Pair(T, T), Rand(usize, T, T) }

impl C06 {
    fn pick(&mut self, idx: u64) -> C06Case {
        let nseq = self.seqs.len() as u64;
        if idx < nseq { return C06Case::Seq(self.seqs[idx as usize].clone()); }
        let idx = idx - nseq;
        if idx < self.n_pairs() {
            let n = self.uni.len() as u64;
            return C06Case::Pair(self.uni[(idx / n) as usize].clone(), self.uni[(idx % n) as usize].clone());
        }
        let idx = idx - self.n_pairs();
        let mut r = Rng::for_case(self.seed, 6, idx);
        let vars = self.deep_vars.clone();
        let (a, b) = random_pair(&mut r, &vars);
        let p = r.below(self.priors.len());
        C06Case::Rand(p, a, b)
    }
}

pub fn random_pair(r: &mut Rng, vars: &[&'static str]) -> (T, T) {
    let a = random_term(r, vars, 9, true);
    let b = if r.chance(1, 3) {
        // a variant of a: replace one variable by a small term, to make successes likely
        let v = var(vars[r.below(vars.len())]);
        let w = random_term(r, vars, 3, true);
        a.map_vars(&mut |n, i| if T::Var(n.to_string(), i) == v { w.clone() } else { T::Var(n.to_string(), i) })
    } else { random_term(r, vars, 9, true) };
    (a, b)
}

// ------------------------------------------------------------------------- C07

/// Compare two engine results for symmetry. `vars` are the engine variables to resolve.
pub fn sym_compare(r1: &Option<Ss>, r2: &Option<Ss>, vars: &[Unifiable]) -> Result<(), String> {
    match (r1, r2) {
        (None, None) => Ok(()),
        (Some(_), None) => Err("A=B succeeds, B=A fails".into()),
        (None, Some(_)) => Err("A=B fails, B=A succeeds".into()),
        (Some(s1), Some(s2)) => {
            if let Some(c) = cycle_in(s1) { return Err(format!("cyclic result A=B: {}", c)); }
            if let Some(c) = cycle_in(s2) { return Err(format!("cyclic result B=A: {}", c)); }
            // a variable is identified by its id alone (the callers may not know its name)
            let nm = |t: T| t.map_vars(&mut |_, i| T::Var("$v".to_string(), i));
            let t1: Vec<T> = vars.iter().map(|v| nm(from_su(&v.replace_variables(s1)))).collect();
            let t2: Vec<T> = vars.iter().map(|v| nm(from_su(&v.replace_variables(s2)))).collect();
            if same_vec(&canon_vars(&t1), &canon_vars(&t2)) { Ok(()) } else {
                Err(format!("resolved values differ: A=B gives ({}) B=A gives ({})",
                            t1.iter().map(show).collect::<Vec<_>>().join(", "), t2.iter().map(show).collect::<Vec<_>>().join(", ")))
            }
        }
    }
}

fn collect_vars(u: &Unifiable, out: &mut Vec<Unifiable>) {
    match u {
        Unifiable::LogicVar { .. } => if !out.contains(u) { out.push(u.clone()) },
        Unifiable::SComplex(v) => for x in v { collect_vars(x, out) },
        Unifiable::SFunction { terms, .. } => for x in terms { collect_vars(x, out) },
        Unifiable::SLinkedList { term, next, .. } => { collect_vars(term, out); collect_vars(next, out); }
        _ => {}
    }
}

pub struct C07 { env: UEnv, uni: Vec<T>, priors: Vec<Prior>, n_rand: u64, seed: u64 }

impl C07 {
    pub fn new(tier: Tier, seed: u64) -> C07 {
        let vars: Vec<&'static str> = if tier == Tier::Quick { vec!["$X", "$Y", "$Z"] } else { vec!["$X", "$Y", "$Z", "$W"] };
        let mut env = UEnv::new(&vars);
        let uni = universe(&vars, tier == Tier::Thorough);
        let seqs = prior_sequences(&vars, &uni, seed, if tier == Tier::Quick { 30 } else { 80 });
        let priors = build_priors(&mut env, &seqs, if tier == Tier::Quick { 6 } else { 16 });
        C07 { env, uni, priors, n_rand: if tier == Tier::Quick { 250_000 } else { 2_000_000 }, seed }
    }
    fn n_pairs(&self) -> u64 { let n = self.uni.len() as u64; n * (n + 1) / 2 }

    fn check(&mut self, a: &T, b: &T, out: &mut Outcome) {
        let ua = self.env.su(a); let ub = self.env.su(b);
        let envvars: Vec<Unifiable> = self.env.vars.clone().iter().map(|v| self.env.var_su(v)).collect();
        // as written, under every prior
        for k in 0..self.priors.len() {
            let p = self.priors[k].clone();
            let rr = ref_unify(&self.env, &p.s, a, b);
            if rr.occurs { out.count("skipped_occurs_check", 1); continue; }
            if rr.ambiguous { out.count("skipped_wildcard_order_dependent", 1); continue; }
            out.evals += 1;
            let r = guarded(|| {
                let r1 = ua.unify(&ub, &p.ss);
                let r2 = ub.unify(&ua, &p.ss);
                sym_compare(&r1, &r2, &envvars)
            });
            let res = match r { Ok(x) => x, Err(pn) => Err(format!("panic: {} at {}", pn.msg, pn.loc)) };
            match res {
                Ok(()) => out.count("symmetric_as_written", 1),
                Err(d) => { out.violate(sig("asym", &p.steps, a, b), witness("asymmetric (as written)", &p.steps, a, b, &d)); return; }
            }
        }
        // after the renaming applied to rules and queries: (1) one clause, (2) head vs goal
        let rr0 = ref_unify(&self.env, &Subst::new(), a, b);
        for shared in [true, false] {
            // with separate maps the two sides share no variables; the reference verdict for
            // occurs/ambiguity is recomputed on the renamed-apart pair
            let (ra, rb) = if shared { (a.clone(), b.clone()) } else { (a.rename_inst(1), b.rename_inst(2)) };
            let rr = if shared { RefRun { ok: rr0.ok, s: rr0.s.clone(), occurs: rr0.occurs, ambiguous: rr0.ambiguous } }
                     else { let e2 = UEnv::new(&[]); ref_unify(&e2, &Subst::new(), &ra, &rb) };
            if rr.occurs { out.count("skipped_occurs_check", 1); continue; }
            if rr.ambiguous { out.count("skipped_wildcard_order_dependent", 1); continue; }
            out.evals += 1;
            let a0 = to_su_zero(a); let b0 = to_su_zero(b);
            let r = guarded(|| {
                clear_id();
                let mut m1 = VarMap::new();
                let na = a0.clone().recreate_variables(&mut m1);
                let nb = if shared { b0.clone().recreate_variables(&mut m1) } else { let mut m2 = VarMap::new(); b0.clone().recreate_variables(&mut m2) };
                let mut vs = vec![]; collect_vars(&na, &mut vs); collect_vars(&nb, &mut vs);
                let e = empty();
                let r1 = na.unify(&nb, &e);
                let r2 = nb.unify(&na, &e);
                sym_compare(&r1, &r2, &vs).map_err(|d| format!("{} [renamed: {} vs {}]", d, na, nb))
            });
            let res = match r { Ok(x) => x, Err(pn) => Err(format!("panic: {} at {}", pn.msg, pn.loc)) };
            match res {
                Ok(()) => out.count(if shared { "symmetric_renamed_same_clause" } else { "symmetric_renamed_head_vs_goal" }, 1),
                Err(d) => {
                    let kind = if shared { "asym-renamed-shared" } else { "asym-renamed-apart" };
                    out.violate(sig(kind, &[], a, b), witness(&format!("asymmetric after renaming ({})", if shared { "same clause" } else { "head vs goal" }), &[], a, b, &d));
                    return;
                }
            }
        }
    }
}

impl Workload for C07 {
    fn total(&self) -> u64 { self.n_pairs() + self.n_rand }
    fn rule(&self) -> String {
        format!("every unordered pair (incl. identical) of the {}-term universe: A.unify(B) vs B.unify(A) under {} prior sets as written, and after recreate_variables with one shared VarMap (same clause) and with two VarMaps (head vs goal); then {} random deeper pairs; non-trivial when the sides are of different variants or contain variables; distinct by canonical text",
                self.uni.len(), self.priors.len(), self.n_rand)
    }
    fn exhaustive_part(&self) -> Option<String> { Some(format!("all {} unordered pairs of the universe", self.n_pairs())) }
    fn describe(&mut self, idx: u64) -> String {
        let (a, b) = self.pick(idx);
        json::obj(&[("left", json::esc(&show(&a))), ("right", json::esc(&show(&b)))])
    }
    fn run(&mut self, idx: u64) -> Outcome {
        let (a, b) = self.pick(idx);
        let mut out = Outcome::new(hash_str(&format!("{} ~ {}", show(&a), show(&b))));
        out.evals = 0;
        out.nontrivial = std::mem::discriminant(&a) != std::mem::discriminant(&b) || a.has_var() || b.has_var();
        self.check(&a, &b, &mut out);
        out.sample = json::obj(&[("left", json::esc(&show(&a))), ("right", json::esc(&show(&b)))]);
        out
    }
}

impl C07 {
    fn pick(&mut self, idx: u64) -> (T, T) {
        if idx < self.n_pairs() {
            let n = self.uni.len() as u64;
            let mut i = 0u64; let mut rem = idx;
            while rem >= n - i { rem -= n - i; i += 1; }
            (self.uni[i as usize].clone(), self.uni[(i + rem) as usize].clone())
        } else {
            let mut r = Rng::for_case(self.seed, 7, idx);
            let vars = self.env.vars.clone();
            random_pair(&mut r, &vars)
        }
    }
}

// ------------------------------------------------------------------------- C08

pub struct C08 { env: UEnv, pairs: Vec<(T, T)>, max_len: usize, n_exh: u64, n_rand: u64, seed: u64, uni: Vec<T> }

impl C08 {
    pub fn new(tier: Tier, seed: u64) -> C08 {
        let vars: Vec<&'static str> = if tier == Tier::Quick { vec!["$X", "$Y", "$Z"] } else { vec!["$X", "$Y", "$Z", "$W"] };
        let env = UEnv::new(&vars);
        let mut pairs = vec![];
        for a in &vars { for b in &vars { pairs.push((var(a), var(b))); } }
        let max_len = if tier == Tier::Quick { 4 } else { 5 };
        let mut n_exh = 0u64; let mut p = 1u64;
        for _ in 0..max_len { p *= pairs.len() as u64; n_exh += p; }
        let uni = universe(&vars, false);
        C08 { env, pairs, max_len, n_exh, n_rand: if tier == Tier::Quick { 500_000 } else { 4_000_000 }, seed, uni }
    }
    fn decode(&self, mut idx: u64) -> Vec<(T, T)> {
        let base = self.pairs.len() as u64;
        let mut len = 1; let mut block = base;
        while idx >= block { idx -= block; len += 1; block *= base; }
        let mut v = vec![];
        for _ in 0..len { v.push(self.pairs[(idx % base) as usize].clone()); idx /= base; }
        v
    }
}

impl C08 {
    fn pick(&mut self, idx: u64) -> Vec<(T, T)> {
        if idx < self.n_exh { return self.decode(idx); }
        let mut r = Rng::for_case(self.seed, 8, idx);
        let vars = self.env.vars.clone();
        let n = r.range(2, 6);
        (0..n).map(|_| {
            let a = if r.chance(3, 4) { var(vars[r.below(vars.len())]) } else { r.pick(&self.uni).clone() };
            let b = if r.chance(1, 2) { var(vars[r.below(vars.len())]) } else { r.pick(&self.uni).clone() };
            if r.chance(1, 2) { (a, b) } else { (b, a) }
        }).collect()
    }
}

impl Workload for C08 {
    fn total(&self) -> u64 { self.n_exh + self.n_rand }
    fn rule(&self) -> String {
        format!("every sequence of 1..{} unifications over the {} ordered variable pairs (incl. $V=$V), then {} random sequences of length <= 6 mixing variables and universe terms; after every successful step the whole binding graph is searched for a cycle (bounded walk), aliased pairs must not add a binding, then replace_variables and Display must return; non-trivial when the sequence aliases at least one pair twice (in any orientation) or has >= 3 steps; distinct by sequence text",
                self.max_len, self.pairs.len(), self.n_rand)
    }
    fn exhaustive_part(&self) -> Option<String> { Some(format!("all {} variable-pair sequences up to length {}", self.n_exh, self.max_len)) }
    fn describe(&mut self, idx: u64) -> String { json::obj(&[("sequence", json::esc(&show_steps(&self.pick(idx))))]) }
    fn run(&mut self, idx: u64) -> Outcome {
        let steps = self.pick(idx);
        let text = show_steps(&steps);
        let mut out = Outcome::new(hash_str(&text));
        out.evals = 0;
        out.sample = json::obj(&[("sequence", json::esc(&text))]);
        let mut seen_pairs: Vec<(T, T)> = vec![];
        let mut repeated = false;
        for (a, b) in &steps {
            if seen_pairs.iter().any(|(x, y)| (x == a && y == b) || (x == b && y == a)) { repeated = true; }
            seen_pairs.push((a.clone(), b.clone()));
        }
        out.nontrivial = repeated || steps.len() >= 3;
        let mut ss = empty();
        let mut s = Subst::new();
        let mut done: Vec<(T, T)> = vec![];
        for (a, b) in &steps {
            let rr = ref_unify(&self.env, &s, a, b);
            if rr.occurs { out.count("skipped_occurs_check", 1); out.verdict = Verdict::Skipped("needs occurs check"); return out; }
            if rr.ambiguous { out.count("skipped_wildcard_order_dependent", 1); out.verdict = Verdict::Skipped("wildcard order dependent"); return out; }
            let already_aliased = a.is_var() && b.is_var() && same(&s.resolve(a), &s.resolve(b));
            let ua = self.env.su(a); let ub = self.env.su(b);
            out.evals += 1;
            let r = match engine_unify(&ua, &ub, &ss) {
                Ok(r) => r,
                Err(p) => { out.violate(sig("panic", &done, a, b), witness("engine panicked", &done, a, b, &format!("{} at {}", p.msg, p.loc))); return out; }
            };
            match (r, rr.ok) {
                (Some(ns), true) => {
                    if let Some(c) = cycle_in(&ns) {
                        out.violate(sig("cycle", &done, a, b), witness("cyclic bindings", &done, a, b, &c));
                        return out;
                    }
                    if already_aliased {
                        out.count("realiased_steps", 1);
                        if bound_entries(&ns) != bound_entries(&ss) {
                            out.violate(sig("rebinding", &done, a, b), witness("unifying already aliased variables added a binding", &done, a, b,
                                        &format!("{} -> {} bound entries", bound_entries(&ss), bound_entries(&ns))));
                            return out;
                        }
                    }
                    ss = ns; s = rr.s;
                }
                (None, false) => { out.count("failed_steps", 1); }
                (Some(_), false) | (None, true) => {
                    // success disagreement is C06's business; stop the sequence here
                    out.count("success_disagreement_left_to_C06", 1);
                    out.verdict = Verdict::Skipped("engine/reference disagree on success (reported by C06)");
                    return out;
                }
            }
            done.push((a.clone(), b.clone()));
        }
        // resolution and printing terminate (invariant holds, so they must return)
        let vars = self.env.vars.clone();
        for v in vars {
            let u = self.env.var_su(v);
            match guarded(|| { let r = u.replace_variables(&ss); format!("{}", r) }) {
                Ok(_) => out.count("resolutions", 1),
                Err(p) => { out.violate(format!("resolve-panic|{}", text), witness("resolving panicked", &steps, &var(v), &var(v), &p.msg)); return out; }
            }
        }
        out
    }
}

// ------------------------------------------------------------------------- C09

pub struct C09 { env: UEnv, uni: Vec<T>, anon_idx: Vec<usize>, priors: Vec<Prior>, seqbase: C08, n_top: u64, n_pairs: u64, n_ins: u64 }

impl C09 {
    pub fn new(tier: Tier, seed: u64) -> C09 {
        let vars: Vec<&'static str> = if tier == Tier::Quick { vec!["$X", "$Y", "$Z"] } else { vec!["$X", "$Y", "$Z", "$W"] };
        let mut env = UEnv::new(&vars);
        let uni = universe(&vars, tier == Tier::Thorough);
        let anon_idx: Vec<usize> = (0..uni.len()).filter(|i| uni[*i].has_anon()).collect();
        let seqs = prior_sequences(&vars, &uni, seed, 30);
        let priors = build_priors(&mut env, &seqs, if tier == Tier::Quick { 6 } else { 16 });
        let seqbase = C08::new(Tier::Quick, seed);
        let n_top = (uni.len() * 2) as u64;
        let n_pairs = (anon_idx.len() * uni.len() * 2) as u64;
        let n_ins = if tier == Tier::Quick { seqbase.n_exh.min(900) + 120_000 } else { seqbase.n_exh + 800_000 };
        C09 { env, uni, anon_idx, priors, seqbase, n_top, n_pairs, n_ins }
    }
}

pub fn same_bindings(a: &SubstitutionSet, b: &SubstitutionSet) -> bool {
    let n = a.len().max(b.len());
    for i in 0..n {
        let x = a.get(i).and_then(|e| e.as_ref());
        let y = b.get(i).and_then(|e| e.as_ref());
        match (x, y) { (None, None) => {}, (Some(p), Some(q)) if **p == **q => {}, _ => return false }
    }
    true
}

impl Workload for C09 {
    fn total(&self) -> u64 { self.n_top + self.n_pairs + self.n_ins }
    fn rule(&self) -> String {
        format!("(i) `$_` against every universe term on either side under {} priors: success and identical bindings; (ii) every ordered pair with a `$_`-containing side ({} of {} terms) against the reference; (iii) sequences S vs S with `$V = $_` / `$_ = $V` inserted at every position: same success pattern and resolved values; non-trivial when `$_` is nested or the sequence has a later step on the same variable; distinct by text",
                self.priors.len(), self.anon_idx.len(), self.uni.len())
    }
    fn exhaustive_part(&self) -> Option<String> { Some(format!("all {} top-level and {} nested `$_` pairs", self.n_top, self.n_pairs)) }
    fn run(&mut self, idx: u64) -> Outcome {
        if idx < self.n_top {
            let t = self.uni[(idx / 2) as usize].clone();
            let left = idx % 2 == 0;
            let (a, b) = if left { (T::Anon, t.clone()) } else { (t.clone(), T::Anon) };
            let mut out = Outcome::new(hash_str(&format!("top {} ~ {}", show(&a), show(&b))));
            out.evals = 0;
            out.nontrivial = t.has_var();
            out.sample = json::obj(&[("left", json::esc(&show(&a))), ("right", json::esc(&show(&b)))]);
            let ua = self.env.su(&a); let ub = self.env.su(&b);
            for k in 0..self.priors.len() {
                let p = self.priors[k].clone();
                out.evals += 1;
                match engine_unify(&ua, &ub, &p.ss) {
                    Err(pn) => { out.violate(sig("panic", &p.steps, &a, &b), witness("engine panicked", &p.steps, &a, &b, &pn.msg)); break; }
                    Ok(None) => { out.violate(sig("anon-fails", &p.steps, &a, &b), witness("`$_` failed to unify", &p.steps, &a, &b, "")); break; }
                    Ok(Some(ns)) => {
                        if !same_bindings(&ns, &p.ss) {
                            out.violate(sig("anon-binds", &p.steps, &a, &b), witness("unifying with `$_` changed the bindings", &p.steps, &a, &b,
                                        &format!("before: {} after: {}", format_ss(&p.ss).replace('\n', " "), format_ss(&ns).replace('\n', " "))));
                            break;
                        }
                        out.count("top_level_anon_checked", 1);
                    }
                }
            }
            return out;
        }
        let idx = idx - self.n_top;
        if idx < self.n_pairs {
            let n = self.uni.len() as u64;
            let flip = idx % 2 == 1;
            let k = idx / 2;
            let a = self.uni[self.anon_idx[(k / n) as usize]].clone();
            let b = self.uni[(k % n) as usize].clone();
            let (a, b) = if flip { (b, a) } else { (a, b) };
            let mut out = Outcome::new(hash_str(&format!("pair {} ~ {}", show(&a), show(&b))));
            out.evals = 0;
            out.nontrivial = a.size() > 1 || b.size() > 1;
            out.sample = json::obj(&[("left", json::esc(&show(&a))), ("right", json::esc(&show(&b)))]);
            for k in 0..self.priors.len() {
                let p = self.priors[k].clone();
                out.evals += 1;
                check_c06(&mut self.env, &p, &a, &b, &mut out);
                if out.is_violated() { break; }
            }
            return out;
        }
        // (iii) insertion metamorphic
        let idx = idx - self.n_pairs;
        let base = self.seqbase.total();
        // spread over the sequence space deterministically
        let sidx = if idx < self.seqbase.n_exh.min(self.n_ins) { idx } else { self.seqbase.n_exh + (idx % (base - self.seqbase.n_exh)) };
        let steps: Vec<(T, T)> = if sidx < self.seqbase.n_exh { self.seqbase.decode(sidx) } else {
            let mut r = Rng::for_case(self.seqbase.seed, 9, sidx);
            let vars = self.env.vars.clone();
            let n = r.range(2, 5);
            (0..n).map(|_| {
                let a = var(vars[r.below(vars.len())]);
                let b = if r.chance(1, 3) { var(vars[r.below(vars.len())]) } else { r.pick(&self.uni).clone() };
                if r.chance(1, 2) { (a, b) } else { (b, a) }
            }).collect()
        };
        let text = show_steps(&steps);
        let mut out = Outcome::new(hash_str(&format!("ins {}", text)));
        out.evals = 0;
        out.sample = json::obj(&[("sequence", json::esc(&text)), ("insertions", "every position x every variable x both sides".to_string())]);
        // domain: reference must not need occurs check / be order dependent on the base sequence
        {
            let mut s = Subst::new();
            for (a, b) in &steps {
                let rr = ref_unify(&self.env, &s, a, b);
                if rr.occurs || rr.ambiguous { out.verdict = Verdict::Skipped("base sequence outside C06 domain"); return out; }
                if rr.ok { s = rr.s; }
            }
        }
        let run = |env: &mut UEnv, steps: &[(T, T)]| -> Result<(Vec<bool>, Option<Vec<T>>), String> {
            let mut ss = empty();
            let mut pat = vec![];
            for (a, b) in steps {
                let ua = env.su(a); let ub = env.su(b);
                match engine_unify(&ua, &ub, &ss) {
                    Err(p) => return Err(format!("panic: {}", p.msg)),
                    Ok(Some(ns)) => { pat.push(true); ss = ns; }
                    Ok(None) => pat.push(false),
                }
            }
            if cycle_in(&ss).is_some() { return Ok((pat, None)); }
            let t = engine_tuple(env, &ss).map_err(|p| format!("panic: {}", p.msg))?;
            Ok((pat, Some(canon_vars(&t))))
        };
        let base_res = match run(&mut self.env, &steps) { Ok(r) => r, Err(_) => { out.verdict = Verdict::Skipped("base sequence panics (C06/C08 report it)"); return out; } };
        if base_res.1.is_none() { out.verdict = Verdict::Skipped("base sequence cyclic (C08 reports it)"); return out; }
        let vars = self.env.vars.clone();
        for pos in 0..=steps.len() {
            for v in &vars {
                for side in 0..2 {
                    let ins = if side == 0 { (var(v), T::Anon) } else { (T::Anon, var(v)) };
                    let mut s2 = steps.clone();
                    s2.insert(pos, ins.clone());
                    out.evals += 1;
                    let later_use = steps[pos..].iter().any(|(a, b)| { let mut vs = vec![]; a.vars(&mut vs); b.vars(&mut vs); vs.iter().any(|(n, _)| n == v) });
                    if later_use { out.nontrivial = true; }
                    match run(&mut self.env, &s2) {
                        Err(d) => { out.violate(sig("ins-panic", &s2, &T::Anon, &T::Anon), witness("panic with inserted `$_` step", &s2, &ins.0, &ins.1, &d)); return out; }
                        Ok((mut pat, tup)) => {
                            let ins_ok = pat.remove(pos);
                            if !ins_ok || pat != base_res.0 || tup.is_none() || !same_vec(tup.as_ref().unwrap(), base_res.1.as_ref().unwrap()) {
                                out.violate(sig("ins", &s2, &T::Anon, &T::Anon),
                                    witness("inserting a `$_` unification changed later behaviour", &steps, &ins.0, &ins.1,
                                            &format!("inserted at position {}: success pattern {:?} vs {:?}; values {:?} vs {:?}", pos, pat, base_res.0,
                                                     tup.map(|t| t.iter().map(show).collect::<Vec<_>>()), base_res.1.as_ref().map(|t| t.iter().map(show).collect::<Vec<_>>()))));
                                return out;
                            }
                            out.count("insertions_checked", 1);
                        }
                    }
                }
            }
        }
        out
    }
}
