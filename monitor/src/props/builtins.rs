//! C12-C17: built-ins against the reference, driven through small programs (constructor-built
//! and, where parser-safe, source text), plus direct list-layout checks (C15).
use crate::adapter::*;
use crate::core::*;
use crate::gen_prog::Case;
use crate::json;
use crate::props::search::*;
use crate::rinterp::{self, Ev};
use crate::rng::*;
use crate::rt::*;
use std::rc::Rc;
use suiron::*;

fn v(n: &str) -> T { var(n) }
fn rule1(args: Vec<T>, body: Vec<G>) -> Clause {
    Clause { name: "t".into(), args, body: Some(if body.len() == 1 { body[0].clone() } else { G::And(body) }) }
}

#[derive(Clone)]
pub struct BCase { pub case: Case, /// when set, the program is given to the engine as source text through parse_rule
                   pub text: Option<Vec<String>>, pub nontrivial: bool, pub label: &'static str }

fn bcase(cl: Clause, nargs: usize, text: Option<Vec<String>>, nontrivial: bool, label: &'static str) -> BCase {
    let qargs = (0..nargs).map(|i| v(&format!("$Q{}", i))).collect();
    BCase { case: Case { prog: Program { clauses: vec![cl] }, qname: "t".into(), qargs }, text, nontrivial, label }
}

fn bcase_json(b: &BCase) -> String {
    match &b.text {
        Some(t) => json::obj(&[("source_text", json::strs(t)), ("query", json::esc(&format!("{}({})", b.case.qname, show_args(&b.case.qargs)))), ("presentation", json::esc(b.label))]),
        None => json::obj(&[("program", json::strs(&b.case.prog.clauses.iter().map(show_clause).collect::<Vec<_>>())),
                            ("query", json::esc(&format!("{}({})", b.case.qname, show_args(&b.case.qargs)))), ("presentation", json::esc(b.label))]),
    }
}

thread_local! { pub static EXEC_OOD: std::cell::Cell<bool> = std::cell::Cell::new(false); }

/// Run one built-in case: reference first (OOD -> skipped), then the engine; compare
/// answers; optionally check the layout of every list in the raw answers.
pub fn run_bcase(b: &BCase, check_layout: bool, with_output: bool, out: &mut Outcome) {
    out.sample = bcase_json(b);
    out.nontrivial = b.nontrivial;
    let c = &b.case;
    let refr = match rinterp::solve(&c.prog, &c.qname, &c.qargs, 20_000, MAX_ANSWERS) {
        Ok(r) => r,
        Err(e) => {
            out.evals = 0; out.verdict = Verdict::Skipped(if e.starts_with("budget") { "reference budget exceeded" } else { "outside the statements' domain" }); out.count("ood", 1);
            // The engine is still run on the out-of-domain case (it may answer, fail or panic - nothing
            // is demanded of it), so that whatever such a call leaves behind in the process meets the
            // in-domain cases that follow on this thread.
            // (only for the arithmetic properties: an out-of-domain list built-in - an open list, say - can
            // recurse without end and abort the process, which no harness can turn into "ignored")
            if EXEC_OOD.with(|c| c.get()) && !e.starts_with("budget") && b.text.is_none() {
                let kb = program_to_kb(&c.prog);
                let _ = guarded(|| run_engine_raw(c, &kb, 3));
                let _ = take_output();
                out.count("out_of_domain_cases_executed_and_ignored", 1);
            }
            return;
        }
    };
    let sig = |kind: &str| format!("{}|{}", kind, match &b.text { Some(t) => t.join(" "), None => show_program(&c.prog) });
    let wit = |kind: &str, d: &str| json::obj(&[("kind", json::esc(kind)), ("case", bcase_json(b)), ("detail", json::esc(d))]);
    let kb = match &b.text {
        None => program_to_kb(&c.prog),
        Some(rules) => {
            let mut kb = KnowledgeBase::new();
            for r in rules {
                match guarded(|| parse_rule(r)) {
                    Ok(Ok(rule)) => add_rules(&mut kb, vec![rule]),
                    Ok(Err(e)) => { out.violate(sig("parse"), wit("source text rejected by parse_rule", &e)); return; }
                    Err(p) => { out.violate(sig("parse-panic"), wit("parse_rule panicked", &p.msg)); return; }
                }
            }
            kb
        }
    };
    let eng = run_engine_raw(c, &kb, MAX_ANSWERS);
    if let Some(p) = &eng.0.panic { out.violate(sig("panic"), wit("engine panicked", &format!("{} at {}", p.msg, p.loc))); return; }
    if let Err(d) = compare(&refr, &eng.0, with_output) { out.violate(sig("answers"), wit("result differs from the reference", &d)); return; }
    out.count("answers_compared", refr.events.iter().filter(|e| matches!(e, Ev::Ans(_))).count() as u64);
    if refr.stats.answers == 0 { out.count("both_fail", 1); } else { out.count("both_succeed", 1); }
    if check_layout {
        for u in &eng.1 {
            if let Some(d) = value_defect(u) { out.violate(sig("layout"), wit("malformed list in an answer", &format!("{} in {:?}", d, u))); return; }
            out.count("answer_values_layout_checked", 1);
        }
    }
}

/// Like run_engine, also returning the raw resolved answer terms.
pub fn run_engine_raw(c: &Case, kb: &KnowledgeBase, max_answers: usize) -> (EngineRun, Vec<Unifiable>) {
    let mut run = EngineRun { events: vec![], exhausted: false, panic: None, reasks: vec![], shown: vec![] };
    let mut raw = vec![];
    let _ = take_output();
    let query = match guarded(|| Rc::new(query_goal(c))) { Ok(q) => q, Err(p) => { run.panic = Some(p); return (run, raw); } };
    let sn = make_base_node(Rc::clone(&query), kb);
    let mut n = 0;
    loop {
        let r = guarded(|| next_solution(Rc::clone(&sn)));
        let o = take_output();
        if !o.is_empty() { run.events.push(Ev::Out(o)); }
        match r {
            Err(p) => { run.panic = Some(p); break; }
            Ok(None) => { run.exhausted = true; break; }
            Ok(Some(ss)) => {
                match guarded(|| query.replace_variables(&ss)) {
                    Ok(u) => { match from_su(&u) { T::Cplx(_, a) => run.events.push(Ev::Ans(a)), o => run.events.push(Ev::Ans(vec![o])) } raw.push(u); }
                    Err(p) => { run.panic = Some(p); break; }
                }
                n += 1; if n >= max_answers { break; }
            }
        }
    }
    (run, raw)
}

// ------------------------------------------------------------------------- C12

pub const NUMS: [Num2; 19] = [
    Num2::I(0), Num2::I(1), Num2::I(-1), Num2::I(2), Num2::I(-2), Num2::I(7), Num2::I(-13), Num2::I(1_000_003),
    Num2::I(1 << 31), Num2::I(-(1 << 31)), Num2::I((1 << 53) + 1), Num2::I(-((1 << 53) + 1)),
    Num2::F(0.5), Num2::F(-2.25), Num2::F(0.001), Num2::F(3.0), Num2::F(1e15 + 0.5), Num2::F(0.0), Num2::F(-0.0),
];
#[derive(Clone, Copy, Debug, PartialEq)]
pub enum Num2 { I(i64), F(f64) }
impl Num2 { pub fn t(self) -> T { match self { Num2::I(i) => T::Int(i), Num2::F(f) => T::Float(f) } } }

const OPS: [&str; 4] = ["add", "subtract", "multiply", "divide"];

/// Is the canonical text of this number re-parsed as the same value by a correct parser?
/// (tiny and huge floats print with hundreds of digits; the parser has a documented length limit,
/// so only numbers with a short text are given to it)
fn text_safe(n: &T) -> bool { match n { T::Float(f) => f.fract() != 0.0 && fmt_float(*f).len() <= 24, _ => true } }

pub struct C12 { lists: Vec<Vec<Num2>>, n_rand: u64, seed: u64 }

impl C12 {
    pub fn new(tier: Tier, seed: u64) -> C12 {
        let mut lists = vec![];
        for a in NUMS { lists.push(vec![a]); }
        for a in NUMS { for b in NUMS { lists.push(vec![a, b]); } }
        let small: Vec<Num2> = if tier == Tier::Quick { NUMS[..].iter().cloned().step_by(2).collect() } else { NUMS.to_vec() };
        for a in &small { for b in &small { for c in &small { lists.push(vec![*a, *b, *c]); } } }
        C12 { lists, n_rand: if tier == Tier::Quick { 200_000 } else { 1_500_000 }, seed }
    }
    fn make(&self, nums: &[T], op: &str, pres: usize) -> BCase {
        let f = func(op, nums.to_vec());
        match pres {
            // SFunction value with literal arguments
            0 => bcase(rule1(vec![v("$R")], vec![G::Unify(v("$R"), f)]), 1, None, nums.len() >= 2, "constructor, literal arguments"),
            // arguments through bound variable chains
            1 => {
                let mut body = vec![]; let mut args = vec![];
                for (i, n) in nums.iter().enumerate() {
                    let a = v(&format!("$A{}", i)); let b = v(&format!("$B{}", i)); let c = v(&format!("$C{}", i));
                    match i % 3 {
                        0 => { body.push(G::Unify(a.clone(), n.clone())); args.push(a); }
                        1 => { body.push(G::Unify(b.clone(), a.clone())); body.push(G::Unify(a.clone(), n.clone())); args.push(b); }
                        _ => { body.push(G::Unify(a.clone(), n.clone())); body.push(G::Unify(b.clone(), a.clone())); body.push(G::Unify(c.clone(), b.clone())); args.push(c); }
                    }
                }
                body.push(G::Unify(v("$R"), func(op, args)));
                bcase(rule1(vec![v("$R")], body), 1, None, true, "constructor, arguments through variable chains")
            }
            // function on the left, result compared with the reference's value through a second variable
            2 => bcase(rule1(vec![v("$R")], vec![G::Unify(f, v("$R"))]), 1, None, nums.len() >= 2, "constructor, function on the left"),
            // source text, named form
            3 => {
                let cl = rule1(vec![v("$R")], vec![G::Unify(v("$R"), f.clone())]);
                let text = format!("t($R) :- $R = {}.", show(&f));
                bcase(cl, 1, Some(vec![text]), true, "source text, named form")
            }
            // source text, infix form (two arguments)
            _ => {
                let cl = rule1(vec![v("$R")], vec![G::Unify(v("$R"), f.clone())]);
                let sym = match op { "add" => "+", "subtract" => "-", "multiply" => "*", _ => "/" };
                let text = format!("t($R) :- $R = {} {} {}.", show(&nums[0]), sym, show(&nums[1]));
                bcase(cl, 1, Some(vec![text]), true, "source text, infix form")
            }
        }
    }
    fn pick(&self, idx: u64) -> BCase {
        let per = (OPS.len() * 5) as u64;
        let nl = self.lists.len() as u64;
        let (nums, op, pres): (Vec<T>, &str, usize) = if idx < nl * per {
            let l = &self.lists[(idx / per) as usize];
            let k = (idx % per) as usize;
            (l.iter().map(|n| n.t()).collect(), OPS[k / 5], k % 5)
        } else {
            let mut r = Rng::for_case(self.seed, 12, idx);
            let n = r.range(1, 4);
            let nums = (0..n).map(|_| match r.below(5) {
                0 => T::Int(r.below(2000) as i64 - 1000), 1 => T::Int((r.next() >> r.below(60)) as i64 - (1 << 20)),
                2 => T::Float((r.below(2000) as f64 - 1000.0) / 8.0), 3 => T::Float(f64::from_bits(r.next()) ),
                _ => NUMS[r.below(NUMS.len())].t() }).map(|t| match t { T::Float(f) if !f.is_finite() => T::Float(0.5), t => t }).collect();
            (nums, OPS[r.below(4)], r.below(5))
        };
        // presentations that cannot express this case fall back to the constructor form
        let mut pres = pres;
        if pres >= 3 && !nums.iter().all(text_safe) { pres = 0; }
        if pres == 4 && nums.len() != 2 { pres = 3; }
        self.make(&nums, op, pres)
    }
}

impl Workload for C12 {
    fn total(&self) -> u64 { self.lists.len() as u64 * 20 + self.n_rand }
    fn rule(&self) -> String {
        format!("every argument list of length 1-2 over {} numbers (ints incl. +-2^31, +-(2^53+1); floats incl. 0.0, -0.0, 1e15+0.5) and length 3 over a sub-grid ({} lists) x 4 operations x 5 presentations (constructor literal, through variable chains of length 1-3, function on the left, source text named, source text infix), then {} random lists of 1-4 numbers; lists with integer overflow or integer division by zero are out of domain; non-trivial when >= 2 arguments or a non-literal presentation; distinct by program text",
                NUMS.len(), self.lists.len(), self.n_rand)
    }
    fn exhaustive_part(&self) -> Option<String> { Some(format!("all {} grid lists x 4 operations x 5 presentations", self.lists.len())) }
    fn describe(&mut self, idx: u64) -> String { bcase_json(&self.pick(idx)) }
    fn run(&mut self, idx: u64) -> Outcome {
        let b = self.pick(idx);
        let mut out = Outcome::new(hash_str(&bcase_json(&b)));
        EXEC_OOD.with(|c| c.set(true));
        run_bcase(&b, false, false, &mut out);
        EXEC_OOD.with(|c| c.set(false));
        out
    }
}

// ------------------------------------------------------------------------- C13

pub struct C13 { cases: Vec<BCase>, n_rand: u64, seed: u64 }

fn c13_functions() -> Vec<(T, T)> {
    // (function term, its value)
    vec![
        (func("add", vec![T::Int(1), T::Int(2)]), T::Int(3)),
        (func("subtract", vec![T::Int(10), T::Int(4), T::Int(1)]), T::Int(5)),
        (func("multiply", vec![T::Float(1.5), T::Int(2)]), T::Float(3.0)),
        (func("divide", vec![T::Int(7), T::Int(2)]), T::Int(3)),
        (func("divide", vec![T::Float(1.0), T::Int(4)]), T::Float(0.25)),
        (func("add", vec![T::Float(0.5)]), T::Float(0.5)),
        (func("join", vec![atom("hello"), atom("world")]), atom("hello world")),
        (func("join", vec![atom("a"), atom(","), atom("b"), atom(".")]), atom("a, b.")),
        (func("join", vec![list(vec![atom("x"), atom("y")]), atom("!")]), atom("x y!")),
    ]
}

impl C13 {
    pub fn new(tier: Tier, seed: u64) -> C13 {
        let mut cases = vec![];
        let fs = c13_functions();
        for (f, val) in &fs {
            // operand classes
            let wrong: T = match val { T::Int(i) => T::Int(i + 1), T::Float(x) => T::Float(x + 1.0), _ => atom("other") };
            let mut operands: Vec<(Vec<G>, T, &'static str)> = vec![
                (vec![], v("$R"), "unbound variable"),
                (vec![G::Unify(v("$R"), val.clone())], v("$R"), "variable bound to the value"),
                (vec![G::Unify(v("$R"), wrong.clone())], v("$R"), "variable bound to another value"),
                (vec![G::Unify(v("$S"), v("$R")), G::Unify(v("$R"), val.clone())], v("$S"), "variable chain to the value"),
                (vec![], val.clone(), "equal constant"),
                (vec![], wrong.clone(), "unequal constant"),
                (vec![], atom("zzz"), "atom"),
                (vec![], list(vec![val.clone()]), "list"),
                (vec![], cplx("f", vec![val.clone()]), "complex term"),
                (vec![], T::Anon, "anonymous variable"),
            ];
            if let T::Int(i) = val { operands.push((vec![], T::Float(*i as f64), "float of equal magnitude")); }
            // the other operand is a variable aliased to the (unbound) reported variable, in either direction
            operands.push((vec![G::Unify(v("$S"), v("$R"))], v("$S"), "variable aliased to the unbound result variable"));
            operands.push((vec![G::Unify(v("$R"), v("$S"))], v("$S"), "unbound result variable aliased to the operand variable"));
            operands.push((vec![G::Unify(v("$R"), v("$S")), G::Unify(v("$S"), v("$U"))], v("$U"), "alias chain of three unbound variables"));
            for (g, _) in &fs { operands.push((vec![], g.clone(), "another function")); }
            // body-local variables aliased before the function is met (older to newer and newer to older);
            // the value must reach the *other* end of the alias chain
            for flip in [false, true] {
                for (p, q) in [("$X", "$Y"), ("$Y", "$X")] {
                    let goal = if flip { G::Unify(v("$X"), f.clone()) } else { G::Unify(f.clone(), v("$X")) };
                    cases.push(bcase(rule1(vec![v("$R")], vec![G::Unify(v(p), v(q)), goal.clone(), G::Unify(v("$R"), v("$Y"))]), 1, None, true, "body variables aliased first, value read through the other one"));
                    cases.push(bcase(rule1(vec![v("$R")], vec![G::Unify(v(p), v(q)), G::Unify(v("$Z"), v("$Y")), goal, G::Unify(v("$R"), v("$Z"))]), 1, None, true, "alias chain of three body variables"));
                }
            }
            for (pre, other, label) in operands {
                for flip in [false, true] {
                    let goal = if flip { G::Unify(other.clone(), f.clone()) } else { G::Unify(f.clone(), other.clone()) };
                    let mut body = pre.clone(); body.push(goal);
                    cases.push(bcase(rule1(vec![v("$R")], body), 1, None, true, label));
                    // the same with both operands as arguments of a complex term (the function is reached
                    // in the middle of a unification of two complex terms)
                    if !matches!(other, T::Func(..)) {
                        let (l, r) = if flip { (other.clone(), f.clone()) } else { (f.clone(), other.clone()) };
                        let mut body = pre.clone();
                        body.push(G::Unify(cplx("w", vec![atom("k"), l]), cplx("w", vec![atom("k"), r])));
                        cases.push(bcase(rule1(vec![v("$R")], body), 1, None, true, "both operands as arguments of a complex term"));
                    }
                }
            }
        }
        C13 { cases, n_rand: if tier == Tier::Quick { 200_000 } else { 1_500_000 }, seed }
    }
    fn pick(&self, idx: u64) -> BCase {
        if (idx as usize) < self.cases.len() { return self.cases[idx as usize].clone(); }
        let mut r = Rng::for_case(self.seed, 13, idx);
        let num = |r: &mut Rng| if r.chance(1, 2) { T::Int(r.below(20) as i64 - 5) } else { T::Float((r.below(40) as f64 - 10.0) / 4.0) };
        let mkf = |r: &mut Rng| -> T {
            if r.chance(1, 5) { let n = r.range(1, 3); func("join", (0..n).map(|_| atom(["the", "cat", ",", "sat", ".", "on", "?"][r.below(7)])).collect()) }
            else { let n = r.range(1, 3); func(OPS[r.below(4)], (0..n).map(|_| num(r)).collect()) }
        };
        let f = mkf(&mut r);
        let other = match r.below(6) { 0 => v("$R"), 1 => num(&mut r), 2 => mkf(&mut r), 3 => atom("the cat"), 4 => list(vec![num(&mut r)]), _ => v("$R") };
        let mut body = vec![];
        if other.is_var() && r.chance(1, 2) { body.push(G::Unify(v("$R"), num(&mut r))); }
        body.push(if r.chance(1, 2) { G::Unify(f, other) } else { G::Unify(other, f) });
        bcase(rule1(vec![v("$R")], body), 1, None, true, "random")
    }
}

impl Workload for C13 {
    fn total(&self) -> u64 { self.cases.len() as u64 + self.n_rand }
    fn rule(&self) -> String {
        format!("{} enumerated cases: 9 function terms (add/subtract/multiply/divide/join) x operand classes (unbound variable, variable bound to equal / unequal value, variable chain, equal / unequal constant, atom, list, complex term, `$_`, float of equal magnitude, each of the 9 functions) x both sides of `=`, then {} random function/operand pairs in random order; every case is non-trivial; distinct by program text",
                self.cases.len(), self.n_rand)
    }
    fn exhaustive_part(&self) -> Option<String> { Some(format!("all {} function x operand-class x side combinations", self.cases.len())) }
    fn describe(&mut self, idx: u64) -> String { bcase_json(&self.pick(idx)) }
    fn run(&mut self, idx: u64) -> Outcome {
        let b = self.pick(idx);
        let mut out = Outcome::new(hash_str(&bcase_json(&b)));
        EXEC_OOD.with(|c| c.set(true));
        run_bcase(&b, false, false, &mut out);
        EXEC_OOD.with(|c| c.set(false));
        out
    }
}

// ------------------------------------------------------------------------- C14

pub struct C14 { vals: Vec<(Vec<G>, T, bool)>, n_rand: u64, seed: u64 }

impl C14 {
    pub fn new(tier: Tier, seed: u64) -> C14 {
        // (setup goals, operand term, text-safe)
        let mut vals: Vec<(Vec<G>, T, bool)> = vec![];
        for i in [i64::MIN, -1, 0, 1, 1 << 53, (1 << 53) + 1, i64::MAX] { vals.push((vec![], T::Int(i), i >= 0)); }
        for f in [-0.0, 0.0, 0.1 + 0.2, 0.3, 1.0, (1u64 << 53) as f64, 2.5] { vals.push((vec![], T::Float(f), f > 0.0 && f.fract() != 0.0)); }
        // NaN and infinities can only be produced by float division at run time
        vals.push((vec![G::Unify(v("$N"), func("divide", vec![T::Float(0.0), T::Float(0.0)]))], v("$N"), false));
        vals.push((vec![G::Unify(v("$P"), func("divide", vec![T::Float(1.0), T::Float(0.0)]))], v("$P"), false));
        vals.push((vec![G::Unify(v("$M"), func("divide", vec![T::Float(-1.0), T::Float(0.0)]))], v("$M"), false));
        for a in ["a", "B", "a b", "ab", "é", "日本", "Zebra", "apple"] { vals.push((vec![], atom(a), a.is_ascii())); }
        vals.push((vec![], v("$U"), true));                                   // unbound
        vals.push((vec![], list(vec![T::Int(1)]), true));
        vals.push((vec![], cplx("f", vec![T::Int(1)]), true));
        vals.push((vec![], T::Anon, true));
        let _ = tier;
        C14 { vals, n_rand: if tier == Tier::Quick { 200_000 } else { 1_500_000 }, seed }
    }
    fn make(&self, a: &(Vec<G>, T, bool), b: &(Vec<G>, T, bool), c: Cmp, pres: usize) -> BCase {
        let mut body: Vec<G> = a.0.clone();
        for g in &b.0 { if !body.contains(g) { body.push(g.clone()); } }
        let (mut l, mut r) = (a.1.clone(), b.1.clone());
        // the right operand uses distinct variable names when both are the unbound variable
        if l == v("$U") && r == v("$U") { r = v("$U2"); }
        let mut label = "constructor, named predicate";
        let mut text = None;
        match pres {
            1 | 2 | 3 => {
                // through variable chains of length pres
                label = "through variable chains";
                for (side, t) in [("L", &mut l), ("R", &mut r)] {
                    if t.is_var() { continue; }
                    let mut prev = t.clone();
                    for k in 0..pres { let nv = v(&format!("${}{}", side, k)); body.push(G::Unify(nv.clone(), prev.clone())); prev = nv; }
                    *t = prev;
                }
            }
            4 | 5 if a.0.is_empty() && b.0.is_empty() && a.2 && b.2 => {
                let g = G::Cmp(c, l.clone(), r.clone());
                let s = if pres == 4 { format!("t($W) :- {}, $W = yes.", show_goal(&g)) } else { format!("t($W) :- {} {} {}, $W = yes.", show(&l), c.infix(), show(&r)) };
                label = if pres == 4 { "source text, named" } else { "source text, infix" };
                text = Some(vec![s]);
            }
            _ => {}
        }
        body.push(G::Cmp(c, l, r));
        body.push(G::Unify(v("$W"), atom("yes")));
        // all variables of the comparison are reported so that an accidental binding shows up
        bcase(rule1(vec![v("$W")], body), 1, text, true, label)
    }
    fn pick(&self, idx: u64) -> BCase {
        let n = self.vals.len() as u64;
        let grid = n * n * 5 * 6;
        if idx < grid {
            let pres = (idx % 6) as usize; let i = idx / 6;
            let c = Cmp::ALL[(i % 5) as usize]; let i = i / 5;
            return self.make(&self.vals[(i / n) as usize], &self.vals[(i % n) as usize], c, pres);
        }
        let mut r = Rng::for_case(self.seed, 14, idx);
        let rv = |r: &mut Rng| -> (Vec<G>, T, bool) {
            match r.below(4) {
                0 => { let i = (r.next() >> r.below(63)) as i64 * if r.chance(1, 2) { -1 } else { 1 }; (vec![], T::Int(i), i >= 0) }
                1 => { let f = (r.below(4000) as f64 - 2000.0) / 16.0; (vec![], T::Float(f), f > 0.0 && f.fract() != 0.0) }
                2 => { let f = (r.next() >> r.below(63)) as f64; (vec![], T::Float(f), false) }
                _ => { let n = r.range(1, 4); let s: String = (0..n).map(|_| ['a', 'b', 'A', 'z', ' ', 'é', '1', '_'][r.below(8)]).collect(); let s = s.trim().to_string(); let s = if s.is_empty() { "q".to_string() } else { s }; (vec![], atom(&s), false) }
            }
        };
        let a = rv(&mut r); let b = if r.chance(1, 4) { a.clone() } else { rv(&mut r) };
        self.make(&a, &b, Cmp::ALL[r.below(5)], r.below(4))
    }
}

impl Workload for C14 {
    fn total(&self) -> u64 { let n = self.vals.len() as u64; n * n * 30 + self.n_rand }
    fn rule(&self) -> String {
        format!("all ordered pairs of {} operands (ints incl. i64::MIN/MAX and 2^53+1; floats incl. -0.0, 0.1+0.2, NaN and +-inf produced by float division; atoms incl. spaces and unicode; unbound variable, list, complex term, `$_`) x 5 predicates x 6 presentations (named, variable chains of length 1-3, source text named, source text infix where parser-safe), then {} random pairs; the clause binds a witness variable after the comparison, so success, at-most-once and absence of bindings are read from the answers; every case is non-trivial; distinct by program text",
                self.vals.len(), self.n_rand)
    }
    fn exhaustive_part(&self) -> Option<String> { let n = self.vals.len() as u64; Some(format!("all {} operand pairs x 5 predicates x 6 presentations", n * n)) }
    fn describe(&mut self, idx: u64) -> String { bcase_json(&self.pick(idx)) }
    fn run(&mut self, idx: u64) -> Outcome {
        let b = self.pick(idx);
        let mut out = Outcome::new(hash_str(&bcase_json(&b)));
        // the query reports the witness and every named variable of the comparison
        run_bcase(&b, false, false, &mut out);
        out
    }
}

// ------------------------------------------------------------------------- C16 / C17 / C15 (built-in part)

fn elem_alphabet() -> Vec<T> {
    vec![atom("a"), atom("b"), T::Int(1), T::Float(2.5), v("$V"), T::Anon, list(vec![]), list(vec![atom("b")]), list(vec![list(vec![])]),
         mk_list(vec![atom("b")], Some(v("$T"))), cplx("f", vec![atom("a")]), list(vec![atom("a"), atom("b")])]
}

fn rand_elem(r: &mut Rng) -> T { let a = elem_alphabet(); a[r.below(a.len())].clone() }

/// A list argument in one of several presentations; returns (setup goals, term).
fn rand_list_arg(r: &mut Rng, tag: &str, allow_open: bool) -> (Vec<G>, T) {
    let n = r.range(0, 4);
    let mut elems: Vec<T> = (0..n).map(|_| rand_elem(r)).collect();
    // now and then an element is a variable that is bound (to a list, to [], to an atom) before the call
    let mut pre_elem: Vec<G> = vec![];
    if n > 0 && r.chance(1, 4) {
        let k = r.below(n);
        let x = v(&format!("$El{}", tag));
        pre_elem.push(G::Unify(x.clone(), [list(vec![atom("x"), atom("y")]), list(vec![]), atom("w"), list(vec![list(vec![])])][r.below(4)].clone()));
        elems[k] = x;
    }
    let (mut pre, t) = rand_list_arg_inner(r, tag, allow_open, elems);
    pre_elem.append(&mut pre);
    (pre_elem, t)
}

fn rand_list_arg_inner(r: &mut Rng, tag: &str, allow_open: bool, elems: Vec<T>) -> (Vec<G>, T) {
    match r.below(6) {
        0 | 1 => (vec![], list(elems)),
        2 => { let x = v(&format!("$L{}", tag)); (vec![G::Unify(x.clone(), list(elems))], x) }
        3 if !elems.is_empty() => {
            // bound tail: [e1 | $Tl] with $Tl = [rest]
            let tl = v(&format!("$Tl{}", tag));
            let k = r.range(1, elems.len());
            (vec![G::Unify(tl.clone(), list(elems[k..].to_vec()))], mk_list(elems[..k].to_vec(), Some(tl)))
        }
        4 if !elems.is_empty() => {
            // tail bound to a list which itself has a bound tail
            let t1 = v(&format!("$Ta{}", tag)); let t2 = v(&format!("$Tb{}", tag));
            // the inner tail holds 0, 2 or 3 elements (with exactly one, a node count and an element count coincide)
            let inner: Vec<T> = match r.below(3) { 0 => vec![], 1 => vec![atom("y"), atom("z")], _ => vec![atom("x"), atom("y"), atom("z")] };
            (vec![G::Unify(t2.clone(), list(inner)), G::Unify(t1.clone(), mk_list(if elems.len() >= 2 { elems[1..].to_vec() } else { vec![atom("w")] }, Some(t2)))], mk_list(elems[..1].to_vec(), Some(t1)))
        }
        5 if allow_open && !elems.is_empty() => (vec![], mk_list(elems, Some(v(&format!("$Open{}", tag))))),
        _ => (vec![], list(elems)),
    }
}

#[derive(Clone, Copy, PartialEq)]
pub enum ListProp { C15, C16, C17 }

pub struct ListBips { which: ListProp, seed: u64, enumerated: Vec<BCase>, n_rand: u64 }

impl ListBips {
    pub fn new(which: ListProp, tier: Tier, seed: u64) -> ListBips {
        let mut en = vec![];
        let alpha = elem_alphabet();
        let q = tier == Tier::Quick;
        match which {
            ListProp::C16 | ListProp::C15 => {
                // append over all element pairs/triples as single list argument and as separate arguments
                let small: Vec<T> = if q { alpha.iter().cloned().step_by(1).collect() } else { alpha.clone() };
                for a in &small { for b in &small {
                    en.push(bcase(rule1(vec![v("$O")], vec![G::Append(vec![a.clone(), b.clone(), v("$O")])]), 1, None, true, "append(e1, e2, Out)"));
                    en.push(bcase(rule1(vec![v("$O")], vec![G::Append(vec![list(vec![a.clone(), b.clone()]), v("$O")])]), 1, None, true, "append([e1, e2], Out)"));
                    en.push(bcase(rule1(vec![v("$O")], vec![G::Append(vec![list(vec![a.clone()]), list(vec![b.clone()]), v("$O")])]), 1, None, true, "append([e1], [e2], Out)"));
                    en.push(bcase(rule1(vec![v("$O")], vec![G::Unify(v("$T"), list(vec![b.clone()])), G::Append(vec![mk_list(vec![a.clone()], Some(v("$T"))), list(vec![atom("c")]), v("$O")])]), 1, None, true, "append([e1 | $T], [c], Out) with $T = [e2]"));
                    if which == ListProp::C15 {
                        en.push(bcase(rule1(vec![v("$O")], vec![G::Include(T::Anon, list(vec![a.clone(), b.clone()]), v("$O"))]), 1, None, true, "include($_, [e1, e2], Out)"));
                        en.push(bcase(rule1(vec![v("$O")], vec![G::Exclude(atom("nomatch"), list(vec![a.clone(), b.clone()]), v("$O"))]), 1, None, true, "exclude(nomatch, [e1, e2], Out)"));
                    }
                } }
                if !q || which == ListProp::C16 {
                    for a in alpha.iter().step_by(2) { for b in alpha.iter().step_by(3) { for c in alpha.iter() {
                        en.push(bcase(rule1(vec![v("$O")], vec![G::Append(vec![a.clone(), list(vec![b.clone()]), c.clone(), v("$O")])]), 1, None, true, "append(e1, [e2], e3, Out)"));
                    } } }
                }
                // an element of an input list that is a variable bound to a list, to [] or to an atom:
                // it is resolved, and it stays one element
                for b in small.iter() {
                    if matches!(b, T::Var(..) | T::Anon) { continue; }
                    en.push(bcase(rule1(vec![v("$O")], vec![G::Unify(v("$E"), b.clone()), G::Append(vec![list(vec![atom("a"), v("$E")]), list(vec![atom("c")]), v("$O")])]), 1, None, true, "$E = e, append([a, $E], [c], Out)"));
                    en.push(bcase(rule1(vec![v("$O")], vec![G::Unify(v("$E"), b.clone()), G::Append(vec![list(vec![v("$E")]), v("$O")])]), 1, None, true, "$E = e, append([$E], Out)"));
                    en.push(bcase(rule1(vec![v("$O")], vec![G::Unify(v("$E"), b.clone()), G::Append(vec![v("$E"), list(vec![v("$E"), atom("c")]), v("$O")])]), 1, None, true, "$E = e, append($E, [$E, c], Out)"));
                    if which == ListProp::C15 {
                        en.push(bcase(rule1(vec![v("$O")], vec![G::Unify(v("$E"), b.clone()), G::Include(T::Anon, list(vec![atom("a"), v("$E")]), v("$O"))]), 1, None, true, "$E = e, include($_, [a, $E], Out)"));
                    }
                }
                // Out already a partial list (open or closed pattern) of every prefix length 0-3
                for a in small.iter().step_by(2) { for b in small.iter().step_by(3) {
                    let ins = vec![a.clone(), list(vec![b.clone()]), atom("c")];
                    let pats: Vec<(T, Vec<T>)> = vec![
                        (mk_list(vec![v("$H")], Some(v("$T"))), vec![v("$H"), v("$T")]),
                        (mk_list(vec![v("$H"), v("$I")], Some(v("$T"))), vec![v("$H"), v("$I"), v("$T")]),
                        (mk_list(vec![v("$H"), v("$I"), v("$J")], Some(v("$T"))), vec![v("$H"), v("$I"), v("$T")]),
                        (list(vec![v("$H"), v("$I"), v("$J")]), vec![v("$H"), v("$I"), v("$J")]),
                        (list(vec![v("$H"), v("$I")]), vec![v("$H"), v("$I")]),
                        (mk_list(vec![v("$H"), v("$I"), v("$J"), v("$K")], Some(v("$T"))), vec![v("$H"), v("$T")]),
                    ];
                    for (pat, outs) in pats {
                        let mut args = ins.clone(); args.push(pat);
                        let n = outs.len();
                        en.push(bcase(rule1(outs, vec![G::Append(args)]), n, None, true, "append(e1, [e2], c, <partial list pattern>)"));
                    }
                    // Out bound earlier to an open list
                    en.push(bcase(rule1(vec![v("$A"), v("$R")], vec![G::Unify(v("$O"), mk_list(vec![v("$A")], Some(v("$R")))), G::Append(vec![a.clone(), list(vec![b.clone()]), v("$O")])]), 2, None, true, "$O = [$A | $R], append(e1, [e2], $O)"));
                } }
                // Out bound to the right / a wrong list
                en.push(bcase(rule1(vec![v("$W")], vec![G::Append(vec![atom("a"), list(vec![atom("b")]), list(vec![atom("a"), atom("b")])]), G::Unify(v("$W"), atom("yes"))]), 1, None, true, "Out bound to the right list"));
                en.push(bcase(rule1(vec![v("$W")], vec![G::Append(vec![atom("a"), list(vec![atom("b")]), list(vec![atom("a"), atom("c")])]), G::Unify(v("$W"), atom("yes"))]), 1, None, true, "Out bound to a wrong list"));
                en.push(bcase(rule1(vec![v("$W")], vec![G::Append(vec![atom("a"), list(vec![list(vec![atom("b")])]), list(vec![atom("a"), list(vec![atom("b")])])]), G::Unify(v("$W"), atom("yes"))]), 1, None, true, "Out bound to the right nested list"));
            }
            ListProp::C17 => {
                for a in &alpha { for b in &alpha {
                    let l = list(vec![a.clone(), b.clone()]);
                    en.push(bcase(rule1(vec![v("$N")], vec![G::Count(l.clone(), v("$N"))]), 1, None, true, "count([e1, e2], N)"));
                    en.push(bcase(rule1(vec![v("$N")], vec![G::Unify(v("$T"), list(vec![b.clone()])), G::Count(mk_list(vec![a.clone()], Some(v("$T"))), v("$N"))]), 1, None, true, "count([e1 | $T], N) with $T = [e2]"));
                    for f in [a.clone(), T::Anon, v("$F"), cplx("f", vec![T::Anon]), list(vec![v("$F")]), mk_list(vec![T::Anon], Some(v("$F")))] {
                        en.push(bcase(rule1(vec![v("$O"), v("$F")], vec![G::Include(f.clone(), l.clone(), v("$O"))]), 2, None, true, "include(F, [e1, e2], Out)"));
                        en.push(bcase(rule1(vec![v("$O"), v("$F")], vec![G::Exclude(f.clone(), l.clone(), v("$O"))]), 2, None, true, "exclude(F, [e1, e2], Out)"));
                    }
                } }
                // chains of bound tail variables: [e1 | $T1], $T1 = [e2 | $T2], $T2 = list of 0 / 2 / 3 elements
                for a in alpha.iter().step_by(3) { for inner in [vec![], vec![atom("y"), atom("z")], vec![atom("x"), atom("y"), atom("z")]] {
                    let pre = vec![G::Unify(v("$T2"), list(inner.clone())), G::Unify(v("$T1"), mk_list(vec![a.clone()], Some(v("$T2"))))];
                    let l = mk_list(vec![atom("e")], Some(v("$T1")));
                    let mut b1 = pre.clone(); b1.push(G::Count(l.clone(), v("$N")));
                    en.push(bcase(rule1(vec![v("$N")], b1), 1, None, true, "count over a chain of two bound tail variables"));
                    let mut b2 = pre.clone(); b2.push(G::Include(T::Anon, l.clone(), v("$O")));
                    en.push(bcase(rule1(vec![v("$O"), v("$F")], b2), 2, None, true, "include over a chain of two bound tail variables"));
                    let mut b3 = pre.clone(); b3.push(G::Unify(v("$J"), func("join", vec![mk_list(vec![atom("e")], Some(v("$T2")))])));
                    en.push(bcase(rule1(vec![v("$J")], b3), 1, None, true, "join over a list with a bound tail variable"));
                } }
                // the pattern of functor() reaching it through a bound variable
                for (name, pat) in [("noun", "noun*"), ("noun_phrase", "noun*"), ("verb", "noun*"), ("noun", "noun"), ("noun", "n*"), ("symptom", "symp*")] {
                    let t = cplx(name, vec![T::Int(1), T::Int(2)]);
                    en.push(bcase(rule1(vec![v("$A")], vec![G::Unify(v("$P"), atom(pat)), G::Functor(vec![t.clone(), v("$P"), v("$A")])]), 1, None, true, "$P = pattern, functor(T, $P, A)"));
                    en.push(bcase(rule1(vec![v("$A")], vec![G::Unify(v("$Q"), atom(pat)), G::Unify(v("$P"), v("$Q")), G::Functor(vec![t.clone(), v("$P")]), G::Unify(v("$A"), atom("yes"))]), 1, None, true, "pattern through a variable chain, functor(T, $P)"));
                }
                for ar in 0..5usize {
                    for name in ["noun", "noun_phrase", "n", "verb"] {
                        let t = cplx(name, (0..ar).map(|i| T::Int(i as i64)).collect());
                        for pat in [atom("noun"), atom("noun*"), atom("n*"), atom("*"), atom("verb"), atom("noun_phrase*"), v("$F")] {
                            en.push(bcase(rule1(vec![v("$F"), v("$A")], vec![G::Functor(vec![t.clone(), pat.clone()]), G::Unify(v("$A"), atom("two"))]), 2, None, true, "functor(T, P)"));
                            en.push(bcase(rule1(vec![v("$F"), v("$A")], vec![G::Functor(vec![t.clone(), pat.clone(), v("$A")])]), 2, None, true, "functor(T, P, A)"));
                            en.push(bcase(rule1(vec![v("$F"), v("$A")], vec![G::Unify(v("$X"), t.clone()), G::Functor(vec![v("$X"), pat.clone(), T::Int(ar as i64)])]), 2, None, true, "functor($X, P, arity) through a variable"));
                            en.push(bcase(rule1(vec![v("$F"), v("$A")], vec![G::Functor(vec![t.clone(), pat.clone(), T::Int(ar as i64 + 1)])]), 2, None, true, "functor(T, P, wrong arity)"));
                        }
                    }
                }
                let words = ["the", "cat", ",", "sat", ".", "?", "!", "a b", "7", "...", ".5", "x , y", "?!"];
                for a in words { for b in words { for c in words {
                    if [",", ".", "?", "!"].contains(&a) { continue; }
                    let ts = |s: &str| if s == "7" { T::Int(7) } else { atom(s) };
                    en.push(bcase(rule1(vec![v("$J")], vec![G::Unify(v("$J"), func("join", vec![ts(a), ts(b), ts(c)]))]), 1, None, true, "join(w1, w2, w3)"));
                    if b == "cat" { en.push(bcase(rule1(vec![v("$J")], vec![G::Unify(v("$B"), ts(c)), G::Unify(v("$J"), func("join", vec![list(vec![ts(a), v("$B")]), ts(b)]))]), 1, None, true, "join([w1, $B], w2) with $B bound")); }
                } } }
            }
        }
        let n_rand = match (which, q) { (_, true) => 200_000, (_, false) => 1_500_000 };
        ListBips { which, seed, enumerated: en, n_rand }
    }

    fn pick(&self, idx: u64) -> BCase {
        if (idx as usize) < self.enumerated.len() { return self.enumerated[idx as usize].clone(); }
        let mut r = Rng::for_case(self.seed, 16 + self.which as u64, idx);
        let kind = match self.which { ListProp::C16 => 0, ListProp::C15 => [0, 0, 2, 3][r.below(4)], ListProp::C17 => [1, 2, 3, 4, 5][r.below(5)] };
        let mut body: Vec<G> = vec![];
        match kind {
            0 => {
                let n = r.range(1, 4);
                let mut args = vec![];
                for i in 0..n {
                    if r.chance(2, 3) { let (pre, t) = rand_list_arg(&mut r, &i.to_string(), false); body.extend(pre); args.push(t); }
                    else {
                        let e = rand_elem(&mut r);
                        if r.chance(1, 3) && !matches!(e, T::Var(..) | T::Anon) { let x = v(&format!("$E{}", i)); body.push(G::Unify(x.clone(), e)); args.push(x); } else { args.push(e); }
                    }
                }
                // Out: unbound, or an open / closed list pattern of random prefix length
                match r.below(4) {
                    0 => {
                        let k = r.range(1, 4);
                        let hs: Vec<T> = (0..k).map(|i| v(&format!("$H{}", i))).collect();
                        let open = r.chance(2, 3);
                        let pat = if open { mk_list(hs.clone(), Some(v("$T"))) } else { list(hs.clone()) };
                        args.push(pat);
                        body.push(G::Append(args));
                        let mut outs = hs; if open { outs.push(v("$T")); }
                        let n = outs.len();
                        bcase(rule1(outs, body), n, None, true, "random append, Out a partial list")
                    }
                    _ => {
                        args.push(v("$O"));
                        body.push(G::Append(args));
                        bcase(rule1(vec![v("$O")], body), 1, None, true, "random append")
                    }
                }
            }
            1 => { let (pre, t) = rand_list_arg(&mut r, "c", false); body.extend(pre); body.push(G::Count(t, v("$N"))); bcase(rule1(vec![v("$N")], body), 1, None, true, "random count") }
            2 | 3 => {
                let (pre, t) = rand_list_arg(&mut r, "f", false); body.extend(pre);
                let f = match r.below(6) { 0 => T::Anon, 1 => v("$F"), 2 => cplx("f", vec![T::Anon]), 3 => list(vec![v("$F")]), 4 => mk_list(vec![v("$F")], Some(T::Anon)), _ => rand_elem(&mut r) };
                body.push(if kind == 2 { G::Include(f, t, v("$O")) } else { G::Exclude(f, t, v("$O")) });
                bcase(rule1(vec![v("$O"), v("$F")], body), 2, None, true, "random filter")
            }
            4 => {
                let ar = r.below(5);
                let name = ["noun", "np", "noun phrase", "verb_x"][r.below(4)];
                let t = cplx(name, (0..ar).map(|_| rand_elem(&mut r)).collect());
                let pat = match r.below(4) { 0 => v("$F"), 1 => atom(name), 2 => atom(&format!("{}*", &name[..r.range(0, name.len()).min(name.len())])), _ => atom("verb*") };
                let third = match r.below(3) { 0 => v("$A"), 1 => T::Int(ar as i64), _ => T::Int(9) };
                body.push(if r.chance(1, 3) { G::Functor(vec![t, pat]) } else { G::Functor(vec![t, pat, third]) });
                bcase(rule1(vec![v("$F"), v("$A")], body), 2, None, true, "random functor")
            }
            _ => {
                let n = r.range(1, 6);
                let ws = ["the", "cat", ",", "sat", ".", "?", "!", "on", "mat", "...", ".5", "a ? b", "x , y", "?!", "wait ..."];
                let mut args = vec![];
                let mut i = 0;
                while i < n {
                    if r.chance(1, 4) && i + 1 < n { args.push(list(vec![atom(ws[r.below(15)]), atom(ws[r.below(15)])])); i += 2; }
                    else if r.chance(1, 5) { let x = v(&format!("$W{}", i)); body.push(G::Unify(x.clone(), atom(ws[r.below(15)]))); args.push(x); i += 1; }
                    else { args.push(atom(ws[r.below(15)])); i += 1; }
                }
                body.push(G::Unify(v("$J"), func("join", args)));
                bcase(rule1(vec![v("$J")], body), 1, None, true, "random join")
            }
        }
    }
}

impl Workload for ListBips {
    fn total(&self) -> u64 { self.enumerated.len() as u64 + self.n_rand }
    fn rule(&self) -> String {
        let what = match self.which {
            ListProp::C16 => "append over every pair of a 12-term element alphabet (atoms, numbers, variable, `$_`, [], [b], [[]], [b | $T], f(a), [a, b]) in four argument arrangements incl. a bound tail variable, triples in a fifth arrangement, Out an open or closed partial list pattern of prefix length 1-4 (also bound beforehand), Out bound to right / wrong lists",
            ListProp::C15 => "append / include / exclude over every pair of the 12-term element alphabet; every list anywhere in every raw answer value must be well formed (term != Nil, count = 1 + next.count, tail_var only on the last node, terminator exactly (Nil, Nil, 0, false)) and equal to the reference's element sequence",
            ListProp::C17 => "count over every element pair incl. bound tails; include/exclude over every element pair x 6 filter patterns (element, `$_`, variable, f($_), [$F], [$_ | $F]) reporting the filter variable; functor over arities 0-4 x 4 names x 7 patterns (exact, prefix*, `*`, variable) in 4 forms; join over word/punctuation triples",
        };
        format!("{} enumerated cases ({}), then {} random cases with lists in five presentations (literal, through a variable, bound tail, doubly bound tail); cases the statement leaves open (unbound list tails, non-list arguments, join starting with punctuation) are out of domain; every case is non-trivial; distinct by program text", self.enumerated.len(), what, self.n_rand)
    }
    fn exhaustive_part(&self) -> Option<String> { Some(format!("all {} enumerated argument combinations", self.enumerated.len())) }
    fn describe(&mut self, idx: u64) -> String { bcase_json(&self.pick(idx)) }
    fn run(&mut self, idx: u64) -> Outcome {
        let b = self.pick(idx);
        let mut out = Outcome::new(hash_str(&bcase_json(&b)));
        run_bcase(&b, self.which == ListProp::C15, false, &mut out);
        out
    }
}
