//! C19 (canonical text round trip), C20 (context independence), C21 (file loading).
use crate::adapter::*;
use crate::core::*;
use crate::gen_text::*;
use crate::json;
use crate::rng::*;
use crate::rt::*;
use suiron::*;

fn erase(u: &Unifiable) -> Unifiable {
    match u {
        Unifiable::LogicVar { name, .. } => Unifiable::LogicVar { id: 0, name: name.clone() },
        Unifiable::SComplex(v) => Unifiable::SComplex(v.iter().map(erase).collect()),
        Unifiable::SFunction { name, terms } => Unifiable::SFunction { name: name.clone(), terms: terms.iter().map(erase).collect() },
        Unifiable::SLinkedList { term, next, count, tail_var } =>
            Unifiable::SLinkedList { term: Box::new(erase(term)), next: Box::new(erase(next)), count: *count, tail_var: *tail_var },
        x => x.clone(),
    }
}

// ------------------------------------------------------------------------- C19

#[derive(Clone, Debug)]
pub enum Level { Term, Goal, Rule, Query }

#[derive(Clone, Debug)]
pub struct RoundTrip { pub level: Level, pub source: String, pub canon: String }

pub struct C19 { enumerated: Vec<RoundTrip>, n_rand: u64, seed: u64 }

fn rt_term(t: &T) -> RoundTrip { RoundTrip { level: Level::Term, source: show(t), canon: show(t) } }
fn rt_goal(g: &G, infix: bool) -> RoundTrip { RoundTrip { level: Level::Goal, source: src_goal(g, infix), canon: show_goal(g) } }
fn rt_rule(c: &Clause, infix: bool) -> RoundTrip {
    RoundTrip { level: Level::Rule, source: src_clause(c, infix), canon: show_clause_flat(c) }
}
fn show_clause_flat(c: &Clause) -> String {
    let head = format!("{}({})", c.name, show_args(&c.args));
    match &c.body { None => format!("{}.", head), Some(b) => format!("{} :- {}.", head, show_goal(b)) }
}

impl C19 {
    pub fn new(tier: Tier, seed: u64) -> C19 {
        let mut en = vec![];
        let tsize = if tier == Tier::Quick { 3 } else { 4 };
        for t in terms_up_to(tsize) { en.push(rt_term(&t)); }
        // infix arithmetic at term level prints in the named form
        for (op, name) in [("+", "add"), ("-", "subtract"), ("*", "multiply"), ("/", "divide")] {
            for (a, b) in [(var("$X"), T::Int(7)), (T::Float(1.5), var("$Y")), (T::Int(7), T::Int(7)), (var("$X"), cplx("g", vec![T::Int(7)])), (T::Float(1.5), func("add", vec![var("$Y"), T::Int(7)])), (cplx("g", vec![T::Int(7)]), var("$X"))] {
                en.push(RoundTrip { level: Level::Term, source: format!("{} {} {}", show(&a), op, show(&b)), canon: show(&func(name, vec![a.clone(), b.clone()])) });
            }
        }
        for g in simple_goals(3) { en.push(rt_goal(&g, false)); en.push(rt_goal(&g, true)); }
        for b in small_bodies() {
            en.push(rt_goal(&b, true));
            en.push(rt_rule(&Clause { name: "p".into(), args: vec![var("$X")], body: Some(b.clone()) }, false));
        }
        for n in 0..4usize {
            for name in ["go", "p", "longer_name"] {
                let args: Vec<T> = (0..n).map(|i| [atom("a"), var("$X"), T::Int(7), list(vec![atom("a")])][i % 4].clone()).collect();
                en.push(rt_rule(&Clause { name: name.into(), args: args.clone(), body: None }, true));
                en.push(rt_rule(&Clause { name: name.into(), args: args.clone(), body: None }, false));
                en.push(rt_rule(&Clause { name: name.into(), args: args.clone(), body: Some(G::Call("q".into(), vec![])) }, true));
                en.push(RoundTrip { level: Level::Query, source: format!("{}({})", name, show_args(&args)), canon: format!("{}({})", name, show_args(&args)) });
            }
        }
        C19 { enumerated: en, n_rand: if tier == Tier::Quick { 600_000 } else { 5_000_000 }, seed }
    }
    fn pick(&self, idx: u64) -> RoundTrip {
        if (idx as usize) < self.enumerated.len() { return self.enumerated[idx as usize].clone(); }
        let mut r = Rng::for_case(self.seed, 19, idx);
        match r.below(4) {
            0 => rt_term(&rand_term(&mut r, 3)),
            1 => rt_goal(&rand_body(&mut r, 2), r.chance(1, 2)),
            2 => rt_rule(&rand_clause(&mut r, 2), r.chance(1, 2)),
            _ => { let c = rand_clause(&mut r, 2); RoundTrip { level: Level::Query, source: format!("{}({})", c.name, show_args(&c.args)), canon: format!("{}({})", c.name, show_args(&c.args)) } }
        }
    }
}

/// parse + print at a level. Err(description) when the parser rejects or panics.
fn parse_print(level: &Level, s: &str) -> Result<(String, String), String> {
    // returns (printed text, Debug form used for value equality)
    let r = match level {
        Level::Term => guarded(|| parse_term(s).map(|v| (format!("{}", v), format!("{:?}", v)))),
        Level::Goal => guarded(|| generate_goal(s).map(|v| (format!("{}", v), format!("{:?}", v)))),
        Level::Rule => guarded(|| parse_rule(s).map(|v| (format!("{}", v), format!("{:?}", v)))),
        Level::Query => guarded(|| parse_query(s).map(|v| {
            // queries are renamed on construction; print with ids erased
            let e = match &v { Goal::ComplexGoal(u) => erase(u), _ => Unifiable::Nil };
            (format!("{}", e), format!("{:?}", e))
        })),
    };
    match r { Ok(Ok(x)) => Ok(x), Ok(Err(e)) => Err(format!("rejected: {}", e)), Err(p) => Err(format!("panic: {} at {}", p.msg, p.loc)) }
}

impl Workload for C19 {
    fn total(&self) -> u64 { self.enumerated.len() as u64 + self.n_rand }
    fn rule(&self) -> String {
        format!("{} enumerated canonical texts (all terms up to 3-4 nodes over a small alphabet; simple goals incl. every built-in, infix comparison and arithmetic, in named and infix source form; all bodies of <= 3 goals over 8 units in and/or arrangements, as goals and as rules; facts, rules and queries of arity 0-3), then {} random terms, goals, rules and queries; oracle: the parser accepts the text, Display of the value equals the independently computed canonical text, parsing that text gives an equal value; non-trivial when the text contains an operator, a list or nesting; distinct by source text",
                self.enumerated.len(), self.n_rand)
    }
    fn exhaustive_part(&self) -> Option<String> { Some(format!("all {} enumerated texts", self.enumerated.len())) }
    fn describe(&mut self, idx: u64) -> String { let c = self.pick(idx); json::obj(&[("level", json::esc(&format!("{:?}", c.level))), ("source", json::esc(&c.source))]) }
    fn run(&mut self, idx: u64) -> Outcome {
        let c = self.pick(idx);
        let mut out = Outcome::new(hash_str(&format!("{:?}{}", c.level, c.source)));
        out.sample = json::obj(&[("level", json::esc(&format!("{:?}", c.level))), ("source", json::esc(&c.source)), ("canonical", json::esc(&c.canon))]);
        out.nontrivial = c.source.chars().any(|ch| "[(,;=<>+*/|".contains(ch));
        let wit = |kind: &str, d: &str| json::obj(&[("kind", json::esc(kind)), ("level", json::esc(&format!("{:?}", c.level))), ("source", json::esc(&c.source)), ("canonical", json::esc(&c.canon)), ("detail", json::esc(d))]);
        let sig = |kind: &str| format!("{}|{:?}|{}", kind, c.level, c.source);
        let (printed, dbg) = match parse_print(&c.level, &c.source) {
            Ok(x) => x,
            Err(e) => { out.violate(sig("rejected"), wit("documented syntax not accepted", &e)); return out; }
        };
        if printed != c.canon {
            out.violate(sig("print"), wit("printed form differs from the canonical text", &format!("printed: {}", printed)));
            return out;
        }
        out.evals += 1;
        match parse_print(&c.level, &printed) {
            Err(e) => { out.violate(sig("reparse"), wit("printed text is not accepted by the parser", &e)); }
            Ok((p2, d2)) => {
                if d2 != dbg { out.violate(sig("reparse-value"), wit("parsing the printed text gives a different value", &format!("first: {} second: {}", dbg, d2))); }
                else if p2 != printed { out.violate(sig("idempotent"), wit("printing is not idempotent", &p2)); }
                else { out.count("round_trips", 1); }
            }
        }
        out
    }
}

// ------------------------------------------------------------------------- C20

pub struct C20 { texts: Vec<String>, n_rand: u64, seed: u64 }

const CONTEXTS: [&str; 15] = ["alone", "complex argument", "second complex argument", "built-in argument", "list element", "list element (parse_linked_list)",
                              "left of =", "right of =", "left of ==", "left of arithmetic infix", "right of arithmetic infix", "query argument",
                              "argument after a float argument", "argument after an atom with a period", "list element after a float"];

/// Parse `s` in context k and extract the term at the position where `s` was written.
fn parse_in_context(k: usize, s: &str) -> Result<Result<Unifiable, String>, Panic> {
    fn arg(u: Unifiable, i: usize) -> Result<Unifiable, String> {
        match u { Unifiable::SComplex(v) if v.len() > i => Ok(v[i].clone()), other => Err(format!("unexpected shape {:?}", other)) }
    }
    fn bip_arg(g: Goal, i: usize) -> Result<Unifiable, String> {
        match g { Goal::BuiltInGoal(b) => match b.terms { Some(t) if t.len() > i => Ok(t[i].clone()), _ => Err("no terms".into()) }, other => Err(format!("unexpected goal {:?}", other)) }
    }
    fn elem(u: Unifiable) -> Result<Unifiable, String> {
        match u { Unifiable::SLinkedList { term, .. } => Ok(*term), other => Err(format!("unexpected shape {:?}", other)) }
    }
    fn fn_arg(u: Unifiable, i: usize) -> Result<Unifiable, String> {
        match u { Unifiable::SFunction { terms, .. } if terms.len() > i => Ok(terms[i].clone()), other => Err(format!("unexpected shape {:?}", other)) }
    }
    let s = s.to_string();
    guarded(move || match k {
        0 => parse_term(&s),
        1 => parse_complex(&format!("f({})", s)).and_then(|u| arg(u, 1)),
        2 => parse_complex(&format!("f(a, {})", s)).and_then(|u| arg(u, 2)),
        3 => parse_subgoal(&format!("print({})", s)).and_then(|g| bip_arg(g, 0)),
        4 => parse_term(&format!("[{}]", s)).and_then(elem),
        5 => parse_linked_list(&format!("[{}]", s)).and_then(elem),
        6 => parse_subgoal(&format!("{} = a", s)).and_then(|g| bip_arg(g, 0)),
        7 => parse_subgoal(&format!("a = {}", s)).and_then(|g| bip_arg(g, 1)),
        8 => parse_subgoal(&format!("{} == a", s)).and_then(|g| bip_arg(g, 0)),
        9 => parse_term(&format!("{} + 1", s)).and_then(|u| fn_arg(u, 0)),
        10 => parse_term(&format!("1 + {}", s)).and_then(|u| fn_arg(u, 1)),
        11 => parse_query(&format!("q({})", s)).and_then(|g| match g { Goal::ComplexGoal(u) => arg(u, 1), other => Err(format!("unexpected goal {:?}", other)) }),
        12 => parse_complex(&format!("f(2.5, {})", s)).and_then(|u| arg(u, 2)),
        13 => parse_complex(&format!("f(St. John, {})", s)).and_then(|u| arg(u, 2)),
        _ => parse_term(&format!("[2.5, {}]", s)).and_then(|u| match u { Unifiable::SLinkedList { next, .. } => elem(*next), other => Err(format!("unexpected shape {:?}", other)) }),
    })
}

impl C20 {
    pub fn new(tier: Tier, seed: u64) -> C20 {
        let mut texts: Vec<String> = terms_up_to(if tier == Tier::Quick { 3 } else { 4 }).iter().map(show).collect();
        for s in ["-5", "+5", "-2.5", "+2.5", "-0", "0", "5-3", "5+3", "?", "!", ".5", "5.", "$1", "$", "$x", "-", "+", "--5", "-a", "1e5", "1.5e3", "007", "-007",
                  "9223372036854775807", "-9223372036854775808", "9223372036854775808", "a-b", "well-known", "3.14.15", "x.y", "1_000", "$X1", "$_1", "_", "%s", "a_b"] {
            texts.push(s.to_string());
        }
        C20 { texts, n_rand: if tier == Tier::Quick { 250_000 } else { 2_000_000 }, seed }
    }
    fn pick(&self, idx: u64) -> String {
        if (idx as usize) < self.texts.len() { return self.texts[idx as usize].clone(); }
        let mut r = Rng::for_case(self.seed, 20, idx);
        match r.below(4) {
            0 | 1 => show(&rand_term(&mut r, 3)),
            2 => {
                // signed / odd numeric-looking tokens
                let sign = ["", "-", "+", "--", "-+"][r.below(5)];
                let body = match r.below(5) { 0 => format!("{}", r.below(1000)), 1 => format!("{}.{}", r.below(100), r.below(100)), 2 => format!("{}e{}", r.below(10), r.below(5)), 3 => format!("{}-{}", r.below(10), r.below(10)), _ => format!("{}x", r.below(10)) };
                format!("{}{}", sign, body)
            }
            _ => { let n = r.range(1, 4); (0..n).map(|_| ['a', 'Z', '7', '-', '+', '.', '_', '$', '?', '!', '%', '*', '/'][r.below(13)]).collect() }
        }
    }
}

impl Workload for C20 {
    fn total(&self) -> u64 { self.texts.len() as u64 + self.n_rand }
    fn rule(&self) -> String {
        format!("{} enumerated term texts (all canonical terms up to 3-4 nodes plus signed numbers, numeric look-alikes and punctuation atoms), then {} random term texts and sign/punctuation tokens; each text is parsed in {} contexts (alone, 1st/2nd argument of a complex term, built-in argument, list element via parse_term and parse_linked_list, either side of =, left of ==, either operand of an arithmetic infix, query argument, argument after a float / after an atom containing a period, list element after a float); oracle: equal terms (variable ids erased) in every context, or rejected in every context; contexts whose surrounding syntax cannot hold the text (a top-level comma or infix inside it) are not generated; non-trivial when the text is not a plain alphabetic atom; distinct by text",
                self.texts.len(), self.n_rand, CONTEXTS.len())
    }
    fn exhaustive_part(&self) -> Option<String> { Some(format!("all {} enumerated texts x {} contexts", self.texts.len(), CONTEXTS.len())) }
    fn describe(&mut self, idx: u64) -> String { json::obj(&[("text", json::esc(&self.pick(idx)))]) }
    fn run(&mut self, idx: u64) -> Outcome {
        let s = self.pick(idx);
        let mut out = Outcome::new(hash_str(&s));
        out.evals = 0;
        out.sample = json::obj(&[("text", json::esc(&s))]);
        out.nontrivial = !s.chars().all(|c| c.is_ascii_alphabetic());
        // a text that itself contains a top-level infix cannot be an infix operand
        let has_infix = s.contains(" + ") || s.contains(" - ") || s.contains(" * ") || s.contains(" / ") || s.contains(" = ") || s.contains(" == ") || s.contains(" < ") || s.contains(" > ");
        let mut results: Vec<(usize, Result<Unifiable, String>)> = vec![];
        for k in 0..CONTEXTS.len() {
            if has_infix && k >= 6 && k <= 10 { continue; }
            out.evals += 1;
            match parse_in_context(k, &s) {
                Ok(r) => results.push((k, r.map(|u| erase(&u)))),
                Err(p) => { out.violate(format!("panic|{}|{}", CONTEXTS[k], s), json::obj(&[("kind", json::esc("parser panicked")), ("context", json::esc(CONTEXTS[k])), ("text", json::esc(&s)), ("detail", json::esc(&p.msg))])); return out; }
            }
        }
        let base = results[0].clone();
        for (k, r) in &results[1..] {
            let agree = match (&base.1, r) { (Ok(a), Ok(b)) => a == b, (Err(_), Err(_)) => true, _ => false };
            if !agree {
                let f = |r: &Result<Unifiable, String>| match r { Ok(u) => format!("{:?}", u), Err(e) => format!("rejected ({})", e) };
                out.violate(format!("context|{}|{}", CONTEXTS[*k], s),
                    json::obj(&[("kind", json::esc("the same text parses differently in two contexts")), ("text", json::esc(&s)),
                                ("context_a", json::esc(CONTEXTS[base.0])), ("value_a", json::esc(&f(&base.1))),
                                ("context_b", json::esc(CONTEXTS[*k])), ("value_b", json::esc(&f(r)))]));
                return out;
            }
        }
        out.count(if base.1.is_ok() { "accepted_everywhere" } else { "rejected_everywhere" }, 1);
        out
    }
}

// ------------------------------------------------------------------------- C21

pub struct C21 { n: u64, seed: u64, dir: String }

impl C21 {
    pub fn new(tier: Tier, seed: u64) -> C21 {
        let dir = format!("/verif/work/C21/files_{}", std::process::id());
        std::fs::create_dir_all(&dir).ok();
        C21 { n: if tier == Tier::Quick { 120_000 } else { 1_000_000 }, seed, dir }
    }
    /// the program as rule texts (one per rule, canonical single-line source)
    fn program(&self, r: &mut Rng) -> Vec<String> {
        let n = r.range(1, 6);
        (0..n).map(|_| {
            let mut c = rand_clause(r, 2);
            if c.args.is_empty() && r.chance(1, 2) { c.args.push(rand_term(r, 1)); }
            // bodies with floats and infix operators are explicitly part of the claim
            if r.chance(1, 3) {
                let extra = match r.below(3) {
                    0 => G::Unify(rand_var(r), T::Float([2.5, 0.75, 10.125][r.below(3)])),
                    1 => G::Cmp(Cmp::ALL[r.below(5)], rand_var(r), T::Float(1.5)),
                    _ => G::Unify(rand_var(r), rand_arith(r)),
                };
                c.body = Some(match c.body.take() { None => extra, Some(G::And(mut v)) => { v.insert(r.below(v.len() + 1), extra); G::And(v) } Some(G::Or(v)) => G::Or(v), Some(g) => G::And(vec![g, extra]) });
            }
            src_clause(&c, r.chance(2, 3))
        }).collect()
    }
    /// Random legal layout of the rule texts. Returns (file text, layout differs from one rule per line).
    fn render(&self, r: &mut Rng, rules: &[String]) -> (String, bool) {
        let mut out = String::new();
        let mut fancy = false;
        let comment = |r: &mut Rng| -> String { format!("{} {}", ["#", "%", "//"][r.below(3)], ["a comment", "p(1) :- q.", "note, with; punctuation = here.", ""][r.below(4)]) };
        if r.chance(1, 3) { out.push_str(&comment(r)); out.push('\n'); fancy = true; }
        for rule in rules {
            let ch: Vec<char> = rule.chars().collect();
            let mut depth = 0i32;
            let mut line = String::new();
            let mut i = 0;
            while i < ch.len() {
                let c = ch[i];
                line.push(c);
                if c == '(' || c == '[' { depth += 1; }
                if c == ')' || c == ']' { depth -= 1; }
                // legal break points: after `:-`, `,`, `;`, `=` (not `==`, `<=`, `>=` followed by more operator chars)
                let next = ch.get(i + 1).cloned().unwrap_or(' ');
                let is_break = match c {
                    '-' => i > 0 && ch[i - 1] == ':',
                    ',' | ';' => true,
                    '=' => next == ' ',
                    _ => false,
                };
                if is_break && r.chance(1, 4) {
                    fancy = true;
                    // optional end-of-line comment only outside parentheses and brackets
                    if depth == 0 && r.chance(1, 4) { line.push_str("  "); line.push_str(&comment(r)); }
                    out.push_str(&line); out.push('\n');
                    line = " ".repeat(r.below(6));
                    if r.chance(1, 8) { out.push('\n'); }
                    if r.chance(1, 10) { out.push_str(&" ".repeat(r.below(4))); out.push_str(&comment(r)); out.push('\n'); }
                    // skip the single space that followed the break character
                    if next == ' ' { i += 1; }
                }
                i += 1;
            }
            if r.chance(1, 6) { line.push_str("   "); line.push_str(&comment(r)); fancy = true; out.push_str(&line); out.push('\n'); }
            // several rules on one line (only when no comment follows, which would swallow the next rule)
            else if r.chance(1, 5) { out.push_str(&line); out.push_str([" ", "  ", ""][r.below(3)]); fancy = true; }
            else { out.push_str(&line); out.push('\n'); }
            if r.chance(1, 5) { out.push('\n'); fancy = true; }
        }
        (out, fancy)
    }
}

impl Workload for C21 {
    fn total(&self) -> u64 { self.n }
    fn rule(&self) -> String {
        format!("{} generated programs of 1-6 rules from the canonical grammar (float literals and infix operators in bodies included) whose rules parse_rule accepts; K1 = parse_rule per rule + add_rules; K2 = load_kb_from_file on a random legal rendering (line breaks after `:-` `,` `;` `=` at goal level and inside argument lists, indentation, blank lines, several rules on one line, every second file written to the same path as the previous one, full-line and end-of-line `#` `%` `//` comments outside parentheses and brackets), in every third case into a knowledge base that already holds rules; oracle: the file loads, format_kb(K2) == format_kb(K1) and the Debug form of every predicate's rule vector is equal; non-trivial when the rendering differs from one rule per line; distinct by file text", self.n)
    }
    fn describe(&mut self, idx: u64) -> String {
        let mut r = Rng::for_case(self.seed, 21, idx);
        let rules = self.program(&mut r);
        let (text, _) = self.render(&mut r, &rules);
        json::obj(&[("rules", json::strs(&rules)), ("file", json::esc(&text))])
    }
    fn run(&mut self, idx: u64) -> Outcome {
        let mut r = Rng::for_case(self.seed, 21, idx);
        let rules = self.program(&mut r);
        let (text, fancy) = self.render(&mut r, &rules);
        let mut out = Outcome::new(hash_str(&text));
        out.nontrivial = fancy;
        out.sample = json::obj(&[("rules", json::strs(&rules)), ("file", json::esc(&text))]);
        // In every third case the knowledge base is not empty when the file is loaded: some rules of
        // the same program (possibly of the same predicates) were added to it beforehand.
        let mut pre: Vec<String> = vec![];
        if idx % 3 == 0 { let mut r2 = Rng::for_case(self.seed, 212, idx); let n = r2.range(1, 3); for _ in 0..n { pre.push(src_clause(&rand_clause(&mut r2, 1), true)); } if r2.chance(1, 2) { pre.push(rules[0].clone()); } }
        // K1
        let mut k1 = KnowledgeBase::new();
        let mut k2 = KnowledgeBase::new();
        for s in pre.iter() {
            match guarded(|| parse_rule(s)) {
                Ok(Ok(rule)) => { add_rules(&mut k1, vec![rule.clone()]); add_rules(&mut k2, vec![rule]); }
                _ => { out.evals = 0; out.verdict = Verdict::Skipped("a rule is not accepted by parse_rule (C19's subject)"); return out; }
            }
        }
        if !pre.is_empty() { out.count("loaded_into_a_non_empty_knowledge_base", 1); }
        for s in &rules {
            match guarded(|| parse_rule(s)) {
                Ok(Ok(rule)) => add_rules(&mut k1, vec![rule]),
                _ => { out.evals = 0; out.verdict = Verdict::Skipped("a rule is not accepted by parse_rule (C19's subject)"); return out; }
            }
        }
        // every second file is written to the same path as the one before it (a source file that is
        // edited and loaded again, within the same second)
        let path = if idx % 2 == 0 { format!("{}/program.txt", self.dir) } else { format!("{}/{}.txt", self.dir, idx) };
        if std::fs::write(&path, &text).is_err() { out.verdict = Verdict::Inconclusive("cannot write the source file".into()); return out; }
        let res = guarded(|| load_kb_from_file(&mut k2, &path));
        if idx % 2 != 0 { std::fs::remove_file(&path).ok(); }
        let wit = |kind: &str, d: &str| json::obj(&[("kind", json::esc(kind)), ("rules", json::strs(&rules)), ("file", json::esc(&text)), ("detail", json::esc(d))]);
        let sig = |kind: &str| format!("{}|{}", kind, text);
        match res {
            Err(p) => { out.violate(sig("panic"), wit("load_kb_from_file panicked", &p.msg)); }
            Ok(Some(e)) => { out.violate(sig("rejected"), wit("a legally laid out file was rejected", &e)); }
            Ok(None) => {
                let (f1, f2) = (format_kb(&k1), format_kb(&k2));
                if f1 != f2 { out.violate(sig("different"), wit("the loaded knowledge base differs from parsing the rules one by one", &format!("expected: {} | loaded: {}", f1.replace('\n', " "), f2.replace('\n', " ")))); return out; }
                let mut keys: Vec<&String> = k1.keys().collect(); keys.sort();
                for k in keys {
                    if format!("{:?}", k1.get(k)) != format!("{:?}", k2.get(k)) { out.violate(sig("different-value"), wit("rule values differ although they print alike", k)); return out; }
                }
                out.count("files_loaded_equal", 1);
            }
        }
        out
    }
}

impl Drop for C21 { fn drop(&mut self) { std::fs::remove_dir_all(&self.dir).ok(); } }
