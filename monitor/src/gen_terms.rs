//! Term universes (bounded-exhaustive) and random deeper terms.
use crate::rng::Rng;
use crate::rt::*;

pub fn leaves(vars: &[&str]) -> Vec<T> {
    let mut v = vec![atom("a"), atom("b"), T::Int(0), T::Int(1), T::Float(1.5), T::Float(1.0)];
    for x in vars { v.push(var(x)); }
    v.push(T::Anon);
    v
}

/// Reduced leaf set used inside two-place composites to keep the universe small.
pub fn small_leaves(vars: &[&str]) -> Vec<T> {
    let mut v = vec![atom("a"), T::Int(1)];
    for x in vars.iter().take(2) { v.push(var(x)); }
    v.push(T::Anon);
    v
}

fn tails(vars: &[&str]) -> Vec<T> {
    let mut v: Vec<T> = vars.iter().map(|x| var(x)).collect();
    v.push(T::Anon);
    v
}

/// level-1 composites over the given leaf sets
fn composites(one: &[T], two: &[T], tl: &[T]) -> Vec<T> {
    let mut v = vec![list(vec![])];
    for t in one {
        v.push(cplx("f", vec![t.clone()]));
        v.push(cplx("g", vec![t.clone()]));
        v.push(list(vec![t.clone()]));
    }
    for t in two {
        for u in two {
            v.push(cplx("f", vec![t.clone(), u.clone()]));
            v.push(list(vec![t.clone(), u.clone()]));
        }
        for x in tl {
            v.push(mk_list(vec![t.clone()], Some(x.clone())));
        }
    }
    for t in two.iter().take(3) {
        for u in two.iter().take(3) {
            for x in tl.iter().take(2) {
                v.push(mk_list(vec![t.clone(), u.clone()], Some(x.clone())));
            }
        }
    }
    v
}

/// Universe used by C06-C09. `deep` adds a second nesting level.
pub fn universe(vars: &[&str], deep: bool) -> Vec<T> {
    let l = leaves(vars);
    let s = small_leaves(vars);
    let tl = tails(&vars[..vars.len().min(2)]);
    let mut u = l.clone();
    let c1 = composites(&l, &s, &tl);
    u.extend(c1.iter().cloned());
    // hand-picked second-level terms that exercise nested lists / tails / aliasing
    let x = var(vars[0]); let y = var(vars[1]);
    let nested = vec![
        list(vec![list(vec![])]),
        list(vec![list(vec![x.clone()])]),
        list(vec![list(vec![]), x.clone()]),
        list(vec![x.clone(), list(vec![])]),
        list(vec![atom("a"), list(vec![atom("b")])]),
        mk_list(vec![list(vec![x.clone()])], Some(y.clone())),
        cplx("f", vec![list(vec![])]),
        cplx("f", vec![mk_list(vec![x.clone()], Some(y.clone()))]),
        cplx("f", vec![cplx("g", vec![x.clone()])]),
        cplx("f", vec![cplx("g", vec![T::Anon])]),
        cplx("f", vec![x.clone(), cplx("g", vec![x.clone()])]),
        list(vec![cplx("f", vec![x.clone()]), y.clone()]),
        list(vec![atom("a"), atom("b"), atom("a")]),
        list(vec![x.clone(), y.clone(), x.clone()]),
        mk_list(vec![atom("a"), atom("b"), atom("a")], Some(x.clone())),
        cplx("f", vec![]),
        cplx("h", vec![x.clone(), y.clone(), x.clone()]),
    ];
    u.extend(nested);
    if deep {
        // second level: composites over a small set of level-1 terms
        let mid = vec![
            list(vec![]), list(vec![x.clone()]), mk_list(vec![x.clone()], Some(y.clone())),
            cplx("g", vec![y.clone()]), cplx("f", vec![atom("a")]), list(vec![atom("a"), y.clone()]),
            x.clone(), T::Anon, atom("a"),
        ];
        let c2 = composites(&mid, &mid, &tl);
        for t in c2 { if !u.contains(&t) { u.push(t); } }
    }
    // dedupe preserving order
    let mut out: Vec<T> = vec![];
    for t in u { if !out.contains(&t) { out.push(t); } }
    out
}

/// Random term with the given node budget.
pub fn random_term(r: &mut Rng, vars: &[&str], budget: usize, allow_anon: bool) -> T {
    if budget <= 1 || r.chance(2, 5) {
        return match r.below(if allow_anon { 9 } else { 8 }) {
            0 => atom("a"), 1 => atom("b"), 2 => T::Int(r.below(3) as i64), 3 => T::Float(1.5),
            4 | 5 | 6 => var(vars[r.below(vars.len())]),
            7 => list(vec![]),
            _ => T::Anon,
        };
    }
    match r.below(5) {
        0 => { let n = r.range(0, 3); cplx(["f", "g", "h"][r.below(3)], (0..n).map(|_| random_term(r, vars, budget / (n + 1).max(1), allow_anon)).collect()) }
        1 | 2 => { let n = r.range(0, 3); list((0..n).map(|_| random_term(r, vars, budget / (n + 1).max(1), allow_anon)).collect()) }
        _ => {
            let n = r.range(1, 3);
            let e = (0..n).map(|_| random_term(r, vars, budget / (n + 1), allow_anon)).collect();
            let tl = if allow_anon && r.chance(1, 5) { T::Anon } else { var(vars[r.below(vars.len())]) };
            mk_list(e, Some(tl))
        }
    }
}
