//! Reference unifier: Robinson unification without occurs check, written from the
//! statements of C06-C09. `$_` matches anything and never binds or is bound.
use crate::rt::*;
use std::collections::HashMap;

pub type VarKey = (String, u32);

#[derive(Clone, Debug, Default)]
pub struct Subst {
    map: HashMap<VarKey, T>,
    trail: Vec<VarKey>,
    /// set when a binding would have required an occurs check
    pub occurs_needed: bool,
    /// set when a function term was met (caller decides what that means)
    pub func_seen: bool,
    /// right-to-left argument order (used to detect order-dependent `$_` cases)
    pub rtl: bool,
}

impl Subst {
    pub fn new() -> Subst { Subst::default() }
    pub fn mark(&self) -> usize { self.trail.len() }
    pub fn undo(&mut self, mark: usize) {
        while self.trail.len() > mark { let k = self.trail.pop().unwrap(); self.map.remove(&k); }
    }
    pub fn len(&self) -> usize { self.map.len() }
    pub fn get(&self, n: &str, i: u32) -> Option<&T> { self.map.get(&(n.to_string(), i)) }
    pub fn bind(&mut self, n: &str, i: u32, t: T) {
        let k = (n.to_string(), i);
        self.map.insert(k.clone(), t);
        self.trail.push(k);
    }
    /// Dereference top-level variable chains only.
    pub fn walk(&self, t: &T) -> T {
        let mut cur = t.clone();
        let mut steps = 0;
        loop {
            match &cur {
                T::Var(n, i) => match self.get(n, *i) {
                    Some(v) => { cur = v.clone(); steps += 1; if steps > 100_000 { return cur; } }
                    None => return cur,
                },
                _ => return cur,
            }
        }
    }
    /// Fully resolve a term (all bound variables replaced, lists re-normalised).
    pub fn resolve(&self, t: &T) -> T { self.resolve_d(t, 0) }
    fn resolve_d(&self, t: &T, d: usize) -> T {
        if d > 5000 { return t.clone(); }
        let t = self.walk(t);
        match &t {
            T::Cplx(f, a) => T::Cplx(f.clone(), a.iter().map(|x| self.resolve_d(x, d + 1)).collect()),
            T::Func(f, a) => T::Func(f.clone(), a.iter().map(|x| self.resolve_d(x, d + 1)).collect()),
            T::List(e, tl) => mk_list(e.iter().map(|x| self.resolve_d(x, d + 1)).collect(),
                                      tl.as_ref().map(|x| self.resolve_d(x, d + 1))),
            _ => t,
        }
    }
    fn occurs(&self, n: &str, i: u32, t: &T) -> bool {
        let t = self.walk(t);
        match &t {
            T::Var(m, j) => m == n && *j == i,
            T::Cplx(_, a) | T::Func(_, a) => a.iter().any(|x| self.occurs(n, i, x)),
            T::List(e, tl) => e.iter().any(|x| self.occurs(n, i, x)) || tl.as_ref().map_or(false, |x| self.occurs(n, i, x)),
            _ => false,
        }
    }

    pub fn unify(&mut self, a: &T, b: &T) -> bool {
        // once a step needed an occurs check the case is outside every claim: stop at once
        // (continuing would build a cyclic substitution the helpers below cannot walk)
        if self.occurs_needed { return false; }
        let a = self.walk(a);
        let b = self.walk(b);
        match (&a, &b) {
            (T::Anon, _) | (_, T::Anon) => true,
            (T::Var(n, i), T::Var(m, j)) if n == m && i == j => true,
            (T::Var(n, i), t) | (t, T::Var(n, i)) => {
                if let T::Func(..) = t { self.func_seen = true; }
                if self.occurs(n, *i, t) { self.occurs_needed = true; return false; }
                self.bind(n, *i, t.clone());
                true
            }
            (T::Atom(x), T::Atom(y)) => x == y,
            (T::Int(x), T::Int(y)) => x == y,
            (T::Float(x), T::Float(y)) => x == y,
            (T::Cplx(f, x), T::Cplx(g, y)) => {
                if f != g || x.len() != y.len() { return false; }
                let n = x.len();
                for k in 0..n {
                    let k = if self.rtl { n - 1 - k } else { k };
                    if !self.unify(&x[k], &y[k]) { return false; }
                }
                true
            }
            (T::List(e1, t1), T::List(e2, t2)) => {
                let k = e1.len().min(e2.len());
                // elements are always visited front to back in `rtl` mode too: the tail
                // step depends on the common prefix length only.
                for i in 0..k {
                    let i = if self.rtl { k - 1 - i } else { i };
                    if !self.unify(&e1[i], &e2[i]) { return false; }
                }
                let rest1 = T::List(e1[k..].to_vec(), t1.clone());
                let rest2 = T::List(e2[k..].to_vec(), t2.clone());
                self.unify_rest(&rest1, &rest2)
            }
            (T::Func(..), _) | (_, T::Func(..)) => { self.func_seen = true; false }
            _ => false,
        }
    }

    /// Both are lists of which at least one has no elements left.
    fn unify_rest(&mut self, a: &T, b: &T) -> bool {
        let (e1, t1, e2, t2) = match (a, b) {
            (T::List(e1, t1), T::List(e2, t2)) => (e1, t1, e2, t2),
            _ => unreachable!(),
        };
        match (e1.is_empty(), e2.is_empty()) {
            (true, true) => match (t1, t2) {
                (None, None) => true,
                (Some(x), None) => self.unify(x, &T::List(vec![], None)),
                (None, Some(y)) => self.unify(&T::List(vec![], None), y),
                (Some(x), Some(y)) => self.unify(x, y),
            },
            (true, false) => match t1 { None => false, Some(x) => self.unify(x, b) },
            (false, true) => match t2 { None => false, Some(y) => self.unify(a, y) },
            (false, false) => unreachable!(),
        }
    }
}

/// One-shot helper: unify a and b starting from `s` (cloned); returns the new substitution.
pub fn unify_in(s: &Subst, a: &T, b: &T) -> Option<Subst> {
    let mut s2 = s.clone();
    if s2.unify(a, b) { Some(s2) } else {
        let mut f = s.clone(); f.occurs_needed |= s2.occurs_needed; f.func_seen |= s2.func_seen;
        // propagate flags through a failed attempt by returning None; callers that care
        // re-run with their own Subst.
        let _ = f; None
    }
}
