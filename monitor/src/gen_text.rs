//! Canonical-grammar generators (terms, goals, rules as reference values; text comes from
//! the independent printer in rt.rs) and string mutation for the parser workloads.
use crate::rng::Rng;
use crate::rt::*;

// ("ab" and "a b" differ only by a blank inside the atom)
pub const ATOMS: [&str; 12] = ["a", "b", "foo", "Alfred", "x1", "a b", "ab", "snake_case", "big red dog", "Zürich", "日本", "père Noël"];
pub const FUNCTORS: [&str; 5] = ["p", "q", "foo", "bar_1", "r2"];
pub const VARS: [&str; 5] = ["$X", "$Y", "$Z", "$Head", "$T1"];

pub fn rand_atom(r: &mut Rng) -> T { atom(ATOMS[r.below(ATOMS.len())]) }
pub fn rand_var(r: &mut Rng) -> T { var(VARS[r.below(VARS.len())]) }

pub fn rand_number(r: &mut Rng) -> T {
    match r.below(6) {
        0 => T::Int(0), 1 => T::Int(r.below(100) as i64), 2 => T::Int(1_000_000 + r.below(1000) as i64),
        3 => T::Float(1.5), 4 => T::Float(0.25 + r.below(8) as f64),
        // floats whose shortest round-trip text has 16-17 significant digits
        _ => [3.14159, 0.30000000000000004, 1.0833333333333333, 2.0000000000000004, 123456.78901234567][r.below(5)].into_t(),
    }
}

/// Random term of the canonical grammar (no function terms, no zero-arity complex terms).
pub fn rand_term(r: &mut Rng, depth: usize) -> T {
    if depth == 0 || r.chance(1, 2) {
        return match r.below(8) {
            0 | 1 => rand_atom(r), 2 | 3 => rand_var(r), 4 | 5 => rand_number(r), 6 => T::Anon, _ => list(vec![]),
        };
    }
    match r.below(3) {
        0 => { let n = r.range(1, 3); cplx(FUNCTORS[r.below(FUNCTORS.len())], (0..n).map(|_| rand_term(r, depth - 1)).collect()) }
        1 => { let n = r.range(1, 3); list((0..n).map(|_| rand_term(r, depth - 1)).collect()) }
        _ => { let n = r.range(1, 3); mk_list((0..n).map(|_| rand_term(r, depth - 1)).collect(), Some(rand_var(r))) }
    }
}

trait IntoT { fn into_t(self) -> T; }
impl IntoT for f64 { fn into_t(self) -> T { T::Float(self) } }

pub fn rand_arith(r: &mut Rng) -> T {
    let name = ["add", "subtract", "multiply", "divide"][r.below(4)];
    let n = r.range(2, 3);
    func(name, (0..n).map(|_| match r.below(12) {
        0..=4 => rand_var(r), 5..=9 => rand_number(r),
        // an operand that ends in a parenthesis: a complex term, or a nested function in its named form
        10 => cplx(FUNCTORS[r.below(FUNCTORS.len())], vec![rand_number(r)]),
        _ => func(["add", "multiply"][r.below(2)], vec![rand_var(r), rand_number(r)]),
    }).collect())
}

pub fn rand_simple_goal(r: &mut Rng, depth: usize) -> G {
    match r.below(16) {
        0..=4 => {
            let n = r.range(0, 3);
            let mut args: Vec<T> = (0..n).map(|_| rand_term(r, depth)).collect();
            // now and then a function term as an argument of a user predicate
            if n > 0 && r.chance(1, 8) { let k = r.below(n); args[k] = rand_arith(r); }
            G::Call(FUNCTORS[r.below(FUNCTORS.len())].to_string(), args)
        }
        5 | 6 => G::Unify(rand_term(r, depth), rand_term(r, depth)),
        7 => G::Unify(rand_var(r), rand_arith(r)),
        8 | 9 => G::Cmp(Cmp::ALL[r.below(5)], if r.chance(1, 2) { rand_var(r) } else { rand_number(r) }, if r.chance(1, 2) { rand_number(r) } else { rand_atom(r) }),
        10 => [G::Cut, G::Fail, G::Nl][r.below(3)].clone(),
        11 => G::Print((0..r.range(1, 3)).map(|_| rand_term(r, 1)).collect()),
        12 => G::Append({ let mut v: Vec<T> = (0..r.range(1, 3)).map(|_| rand_term(r, 1)).collect(); v.push(rand_var(r)); v }),
        13 => G::Count(rand_term(r, 1), rand_var(r)),
        14 => if r.chance(1, 2) { G::Include(rand_term(r, 1), rand_term(r, 1), rand_var(r)) } else { G::Exclude(rand_term(r, 1), rand_term(r, 1), rand_var(r)) },
        _ => G::Functor(vec![rand_term(r, 1), rand_var(r), rand_var(r)]),
    }
}

/// goal := conj | conj ; conj ; ...   conj := unit , unit ...   unit := simple | not(simple)
pub fn rand_body(r: &mut Rng, depth: usize) -> G {
    let unit = |r: &mut Rng| if r.chance(1, 8) { G::Not(Box::new(rand_simple_goal(r, depth))) } else { rand_simple_goal(r, depth) };
    let conj = |r: &mut Rng| { let n = r.range(1, 3); if n == 1 { unit(r) } else { G::And((0..n).map(|_| unit(r)).collect()) } };
    if r.chance(1, 4) { let n = r.range(2, 3); G::Or((0..n).map(|_| conj(r)).collect()) } else { conj(r) }
}

pub fn rand_clause(r: &mut Rng, depth: usize) -> Clause {
    let n = r.range(0, 3);
    let name = FUNCTORS[r.below(FUNCTORS.len())].to_string();
    let args = (0..n).map(|_| rand_term(r, depth)).collect();
    let body = if r.chance(2, 5) { None } else { Some(rand_body(r, depth)) };
    Clause { name, args, body }
}

// ------------------------------------------------------------------ bounded enumeration

/// All terms with exactly `n` nodes over a tiny alphabet (memo-free; n <= 4).
pub fn terms_of_size(n: usize) -> Vec<T> {
    if n == 0 { return vec![]; }
    if n == 1 {
        return vec![atom("a"), atom("a b"), T::Int(7), T::Float(1.5), var("$X"), var("$Y"), T::Anon, list(vec![]), atom("Zürich"), T::Float(0.30000000000000004)];
    }
    let mut out = vec![];
    // f(t)  [t]  with |t| = n-1
    for t in terms_of_size(n - 1) {
        out.push(cplx("f", vec![t.clone()]));
        out.push(list(vec![t.clone()]));
        // [t | $X] counts the tail as part of the node
        if !matches!(t, T::Anon) { out.push(mk_list(vec![t.clone()], Some(var("$T")))); }
    }
    // f(t, u)  [t, u] with |t| + |u| = n - 1
    for k in 1..n.saturating_sub(1) {
        let m = n - 1 - k;
        if m == 0 { continue; }
        for t in terms_of_size(k) {
            for u in terms_of_size(m) {
                out.push(cplx("f", vec![t.clone(), u.clone()]));
                out.push(list(vec![t.clone(), u.clone()]));
            }
        }
    }
    out
}

pub fn terms_up_to(n: usize) -> Vec<T> { (1..=n).flat_map(terms_of_size).collect() }

/// Simple goals whose argument terms have total size <= n.
pub fn simple_goals(n: usize) -> Vec<G> {
    let mut out = vec![G::Cut, G::Fail, G::Nl, G::Call("p".into(), vec![])];
    let ts = terms_up_to(n.min(3));
    let small = terms_up_to(1);
    for t in &ts {
        out.push(G::Call("p".into(), vec![t.clone()]));
        out.push(G::Print(vec![t.clone()]));
    }
    for t in &terms_up_to(2) {
        for u in &small {
            out.push(G::Call("q".into(), vec![t.clone(), u.clone()]));
            out.push(G::Unify(t.clone(), u.clone()));
            out.push(G::Unify(u.clone(), t.clone()));
        }
    }
    for c in Cmp::ALL {
        for (a, b) in [(var("$X"), T::Int(7)), (T::Float(1.5), var("$Y")), (atom("a"), atom("a b")), (var("$X"), var("$Y"))] {
            out.push(G::Cmp(c, a, b));
        }
    }
    for f in ["add", "subtract", "multiply", "divide"] {
        out.push(G::Unify(var("$X"), func(f, vec![var("$Y"), T::Int(7)])));
        out.push(G::Unify(var("$X"), func(f, vec![T::Float(1.5), var("$Y"), T::Int(7)])));
    }
    out.push(G::Append(vec![atom("a"), list(vec![var("$X")]), var("$Y")]));
    out.push(G::Count(list(vec![atom("a"), var("$X")]), var("$Y")));
    out.push(G::Include(var("$X"), list(vec![atom("a")]), var("$Y")));
    out.push(G::Exclude(cplx("f", vec![T::Anon]), var("$X"), var("$Y")));
    out.push(G::Functor(vec![var("$X"), var("$Y")]));
    out.push(G::Functor(vec![cplx("f", vec![atom("a")]), var("$Y"), var("$Z")]));
    out.push(G::PrintList(vec![list(vec![atom("a"), T::Int(7)])]));
    out
}

/// Bodies built from at most three simple goals of a small alphabet.
pub fn small_bodies() -> Vec<G> {
    let unit: Vec<G> = vec![
        G::Call("q".into(), vec![var("$X")]), G::Call("r".into(), vec![]), G::Unify(var("$X"), atom("a")),
        G::Cmp(Cmp::Lt, var("$X"), T::Int(7)), G::Cut, G::Fail, G::Not(Box::new(G::Call("q".into(), vec![var("$X")]))),
        G::Print(vec![var("$X")]),
    ];
    let mut out = vec![];
    for a in &unit {
        out.push(a.clone());
        for b in &unit {
            out.push(G::And(vec![a.clone(), b.clone()]));
            out.push(G::Or(vec![a.clone(), b.clone()]));
            for c in &unit {
                out.push(G::And(vec![a.clone(), b.clone(), c.clone()]));
                out.push(G::Or(vec![a.clone(), b.clone(), c.clone()]));
                out.push(G::Or(vec![G::And(vec![a.clone(), b.clone()]), c.clone()]));
                out.push(G::Or(vec![a.clone(), G::And(vec![b.clone(), c.clone()])]));
            }
        }
    }
    out
}

// ------------------------------------------------------------------ source-text rendering

/// Source text with infix comparison / arithmetic where the documented syntax has one.
pub fn src_term(t: &T) -> String {
    match t {
        // (a nested function as *left* operand would need parentheses the syntax does not have; as right operand it is written in its named form)
        T::Func(f, a) if a.len() == 2 && ["add", "subtract", "multiply", "divide"].contains(&f.as_str()) && !matches!(a[0], T::Func(..)) => {
            let op = match f.as_str() { "add" => "+", "subtract" => "-", "multiply" => "*", _ => "/" };
            format!("{} {} {}", show(&a[0]), op, show(&a[1]))
        }
        _ => show(t),
    }
}

pub fn src_goal(g: &G, infix: bool) -> String {
    match g {
        G::And(gs) => gs.iter().map(|g| src_goal(g, infix)).collect::<Vec<_>>().join(", "),
        G::Or(gs) => gs.iter().map(|g| src_goal(g, infix)).collect::<Vec<_>>().join("; "),
        G::Not(g) => format!("not({})", src_goal(g, infix)),
        G::Cmp(c, a, b) if infix => format!("{} {} {}", show(a), c.infix(), show(b)),
        G::Unify(a, b) if infix => format!("{} = {}", show(a), src_term(b)),
        G::Call(n, a) if a.is_empty() && infix => n.clone(),
        g => show_goal(g),
    }
}

pub fn src_clause(c: &Clause, infix: bool) -> String {
    let head = if c.args.is_empty() && infix { c.name.clone() } else { format!("{}({})", c.name, show_args(&c.args)) };
    match &c.body { None => format!("{}.", head), Some(b) => format!("{} :- {}.", head, src_goal(b, infix)) }
}

// ------------------------------------------------------------------ mutation / random strings

pub const SYNTAX: &str = "()[]\",;.|\\$_=<>+-*/:%#! ";

pub fn rand_char(r: &mut Rng) -> char {
    let syn: Vec<char> = SYNTAX.chars().collect();
    match r.below(10) {
        0..=4 => syn[r.below(syn.len())],
        5 | 6 => (b'a' + r.below(26) as u8) as char,
        7 => (b'0' + r.below(10) as u8) as char,
        8 => ['X', 'Y', 'e', 'E', 'n', 't'][r.below(6)],
        _ => ['é', '日', '\u{ad}', 'ß', '\t'][r.below(5)],
    }
}

pub fn rand_string(r: &mut Rng, max: usize) -> String {
    let n = r.below(max + 1);
    (0..n).map(|_| rand_char(r)).collect()
}

pub fn mutate(r: &mut Rng, s: &str) -> String {
    let mut c: Vec<char> = s.chars().collect();
    let k = r.range(1, 4);
    for _ in 0..k {
        let n = c.len();
        match r.below(7) {
            0 if n > 0 => { c.remove(r.below(n)); }
            1 => { c.insert(r.below(n + 1), rand_char(r)); }
            2 if n > 0 => { let i = r.below(n); c[i] = rand_char(r); }
            3 if n > 1 => { let i = r.below(n - 1); c.swap(i, i + 1); }
            4 if n > 0 => { c.truncate(r.below(n)); }
            5 if n > 0 => { let i = r.below(n); let j = (i + r.range(1, 6)).min(n); let span: Vec<char> = c[i..j].to_vec(); let at = r.below(n + 1); for (o, ch) in span.into_iter().enumerate() { c.insert(at + o, ch); } }
            _ => { let i = r.below(n + 1); for ch in ["\\", "\"", "(", ")", "[", "]", "$", " = ", " - ", ":-", ".", ","][r.below(12)].chars().rev() { c.insert(i, ch); } }
        }
        if c.len() > 160 { c.truncate(160); }
    }
    c.into_iter().collect()
}

/// All strings of length <= n over the given alphabet.
pub fn all_strings(alpha: &[char], n: usize) -> Vec<String> {
    let mut out = vec![String::new()];
    let mut layer = vec![String::new()];
    for _ in 0..n {
        let mut next = vec![];
        for s in &layer { for c in alpha { let mut t = s.clone(); t.push(*c); next.push(t); } }
        out.extend(next.iter().cloned());
        layer = next;
    }
    out
}
