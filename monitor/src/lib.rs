pub mod rng;
pub mod json;
pub mod core;
pub mod rt;
pub mod runify;
pub mod adapter;
pub mod gen_terms;
pub mod props;
