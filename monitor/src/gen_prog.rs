//! Program generators for the search properties: bounded-exhaustive small shapes and seeded
//! random stratified programs with terminating recursion templates.
use crate::rng::Rng;
use crate::rt::*;

#[derive(Clone, Copy, Debug, Default)]
pub struct Feat { pub cut: bool, pub not: bool, pub print: bool, pub fail: bool, pub anon: bool, pub builtins: bool }

#[derive(Clone, Debug)]
pub struct Case { pub prog: Program, pub qname: String, pub qargs: Vec<T> }

impl Case {
    pub fn text(&self) -> String { format!("{} ?- {}({})", show_program(&self.prog), self.qname, show_args(&self.qargs)) }
}

fn x() -> T { var("$X") }
fn call(n: &str, a: Vec<T>) -> G { G::Call(n.to_string(), a) }
fn fact(n: &str, a: Vec<T>) -> Clause { Clause { name: n.to_string(), args: a, body: None } }
fn rule(n: &str, a: Vec<T>, b: G) -> Clause { Clause { name: n.to_string(), args: a, body: Some(b) } }

// ------------------------------------------------------------------ bounded-exhaustive shapes

pub fn shape_alphabet(f: Feat) -> Vec<G> {
    let mut a = vec![call("q", vec![x()]), G::Unify(x(), atom("a")), G::Unify(x(), atom("b"))];
    if f.fail { a.push(G::Fail); }
    if f.cut { a.push(G::Cut); }
    if f.not { a.push(G::Not(Box::new(call("q", vec![x()])))); a.push(G::Not(Box::new(G::Unify(x(), atom("a"))))); }
    if f.print { a.push(G::Print(vec![x()])); a.push(G::Print(vec![atom("k")])); }
    a
}

/// All bodies of at most `k` goals over the alphabet, in every and/or arrangement.
pub fn shape_bodies(alpha: &[G], k: usize) -> Vec<G> {
    let mut out: Vec<G> = alpha.to_vec();
    if k >= 2 {
        for a in alpha { for b in alpha {
            out.push(G::And(vec![a.clone(), b.clone()]));
            out.push(G::Or(vec![a.clone(), b.clone()]));
        } }
    }
    if k >= 3 {
        for a in alpha { for b in alpha { for c in alpha {
            let (a, b, c) = (a.clone(), b.clone(), c.clone());
            out.push(G::And(vec![a.clone(), b.clone(), c.clone()]));
            out.push(G::Or(vec![a.clone(), b.clone(), c.clone()]));
            out.push(G::And(vec![a.clone(), G::Or(vec![b.clone(), c.clone()])]));
            out.push(G::And(vec![G::Or(vec![a.clone(), b.clone()]), c.clone()]));
            out.push(G::Or(vec![G::And(vec![a.clone(), b.clone()]), c.clone()]));
            out.push(G::Or(vec![a, G::And(vec![b, c])]));
        } } }
    }
    out
}

pub fn shape_base() -> Vec<Clause> {
    vec![
        fact("q", vec![atom("a")]), fact("q", vec![atom("b")]),
        // callers used to observe that a cut in p never leaks to its caller or siblings
        rule("r", vec![x(), var("$Y")], G::And(vec![call("q", vec![var("$Y")]), call("p", vec![x()])])),
        rule("s", vec![x(), var("$Y")], G::And(vec![call("p", vec![x()]), call("q", vec![var("$Y")])])),
    ]
}

pub fn shape_queries() -> Vec<(String, Vec<T>)> {
    vec![("p".into(), vec![x()]), ("p".into(), vec![atom("a")]), ("p".into(), vec![atom("b")]),
         ("r".into(), vec![x(), var("$Y")]), ("s".into(), vec![x(), var("$Y")])]
}

/// Number of bodies `shape_bodies(alpha, k)` enumerates.
pub fn shape_body_count(n: usize, k: usize) -> usize {
    let mut c = n;
    if k >= 2 { c += 2 * n * n; }
    if k >= 3 { c += 6 * n * n * n; }
    c
}

/// The i-th body of `shape_bodies(alpha, k)` without materialising the list.
pub fn shape_body_at(alpha: &[G], k: usize, i: usize) -> G {
    let n = alpha.len();
    if i < n { return alpha[i].clone(); }
    let i = i - n;
    if k >= 2 && i < 2 * n * n {
        let (pair, which) = (i / 2, i % 2);
        let (a, b) = (alpha[pair / n].clone(), alpha[pair % n].clone());
        return if which == 0 { G::And(vec![a, b]) } else { G::Or(vec![a, b]) };
    }
    let i = i - 2 * n * n;
    let (tri, which) = (i / 6, i % 6);
    let (a, b, c) = (alpha[tri / (n * n)].clone(), alpha[(tri / n) % n].clone(), alpha[tri % n].clone());
    match which {
        0 => G::And(vec![a, b, c]),
        1 => G::Or(vec![a, b, c]),
        2 => G::And(vec![a, G::Or(vec![b, c])]),
        3 => G::And(vec![G::Or(vec![a, b]), c]),
        4 => G::Or(vec![G::And(vec![a, b]), c]),
        _ => G::Or(vec![a, G::And(vec![b, c])]),
    }
}

/// Clause list for p/1: a body rule, or one of two facts. Bodies are decoded from their
/// index on demand (the enumeration is never materialised, which matters under Miri).
#[derive(Clone, Debug)]
pub struct Shapes { pub alpha: Vec<G>, pub k1: usize, pub k2: usize, pub nb1: usize, pub nb2: usize, pub queries: Vec<(String, Vec<T>)>, pub n1: u64, pub n2: u64 }

impl Shapes {
    /// k1: goal bound for single-clause programs, k2: for two-clause programs.
    pub fn new(f: Feat, k1: usize, k2: usize) -> Shapes {
        let alpha = shape_alphabet(f);
        let nb1 = shape_body_count(alpha.len(), k1);
        let nb2 = shape_body_count(alpha.len(), k2);
        let queries = shape_queries();
        let nq = queries.len() as u64;
        let c2 = (nb2 + 2) as u64;
        Shapes { n1: nb1 as u64 * nq, n2: c2 * c2 * nq, alpha, k1, k2, nb1, nb2, queries }
    }
    pub fn total(&self) -> u64 { self.n1 + self.n2 }
    fn clause(&self, k: usize, nb: usize, i: usize) -> Clause {
        if i < nb { rule("p", vec![x()], shape_body_at(&self.alpha, k, i)) }
        else if i == nb { fact("p", vec![atom("a")]) }
        else { fact("p", vec![var("$Z")]) }
    }
    pub fn get(&self, idx: u64) -> Case {
        let nq = self.queries.len() as u64;
        let mut clauses = shape_base();
        let qi = if idx < self.n1 {
            let qi = idx % nq; let b = (idx / nq) as usize;
            clauses.push(self.clause(self.k1, self.nb1, b));
            qi
        } else {
            let idx = idx - self.n1;
            let qi = idx % nq; let r = idx / nq;
            let c2 = (self.nb2 + 2) as u64;
            clauses.push(self.clause(self.k2, self.nb2, (r / c2) as usize));
            clauses.push(self.clause(self.k2, self.nb2, (r % c2) as usize));
            qi
        };
        let (qname, qargs) = self.queries[qi as usize].clone();
        Case { prog: Program { clauses }, qname, qargs }
    }
}

// ------------------------------------------------------------------ structured families

/// Cut-focused family (complete enumeration): `pre, LEFT, [print], CUT, [print], RIGHT` where
/// LEFT is a multi-solution goal of every node kind (call, disjunctions whose first
/// alternatives fail, nested groups, list recursion, not + call), RIGHT rejects the first
/// solution(s) of LEFT and would accept a later one, with and without later clauses, asked
/// directly and through callers that backtrack into the call.
pub struct CutFamily { lefts: Vec<G>, rights: Vec<Option<G>>, laters: Vec<Vec<Clause>>, queries: Vec<(String, Vec<T>)>, with_print: bool }

impl CutFamily {
    pub fn new(with_print: bool) -> CutFamily {
        let xv = x(); let y = var("$Y");
        let gen = |t: &T| call("gen", vec![t.clone()]);
        let none = |t: &T| call("none", vec![t.clone()]);
        let eq = |a: &T, k: i64| G::Unify(a.clone(), T::Int(k));
        let lefts = vec![
            gen(&xv),
            G::Or(vec![none(&xv), gen(&xv)]),
            G::Or(vec![gen(&xv), eq(&xv, 7)]),
            G::Or(vec![eq(&xv, 0), gen(&xv)]),
            G::Or(vec![none(&xv), none(&xv), gen(&xv)]),
            G::Or(vec![G::And(vec![none(&xv), gen(&y)]), gen(&xv)]),
            call("mem", vec![xv.clone(), list(vec![T::Int(1), T::Int(2), T::Int(3)])]),
            G::And(vec![gen(&y), G::Unify(xv.clone(), y.clone())]),
            G::And(vec![G::Not(Box::new(none(&T::Int(1)))), gen(&xv)]),
            G::Or(vec![eq(&xv, 1), eq(&xv, 2), eq(&xv, 3)]),
            G::Or(vec![G::Or(vec![none(&xv), eq(&xv, 1)]), gen(&xv)]),
            call("two", vec![xv.clone()]),
        ];
        let rights = vec![
            None,
            Some(G::Cmp(Cmp::Eq, xv.clone(), T::Int(2))),
            Some(G::Cmp(Cmp::Gt, xv.clone(), T::Int(1))),
            Some(G::Unify(xv.clone(), T::Int(2))),
            Some(gen(&xv)),
            Some(G::Fail),
            Some(G::Or(vec![G::Cmp(Cmp::Eq, xv.clone(), T::Int(3)), G::Cmp(Cmp::Eq, xv.clone(), T::Int(2))])),
            Some(G::And(vec![gen(&y), G::Cmp(Cmp::Gt, y.clone(), xv.clone())])),
        ];
        let laters = vec![vec![], vec![fact("p", vec![T::Int(8)])], vec![rule("p", vec![xv.clone()], G::Unify(xv.clone(), T::Int(9))), fact("p", vec![T::Int(2)])]];
        let queries = vec![("p".into(), vec![xv.clone()]), ("p".into(), vec![T::Int(2)]), ("r".into(), vec![xv.clone(), y.clone()]), ("s".into(), vec![xv.clone(), y.clone()])];
        CutFamily { lefts, rights, laters, queries, with_print }
    }
    fn dims(&self) -> [usize; 7] { [self.lefts.len(), 2, 3, self.rights.len(), self.laters.len(), self.queries.len(), if self.with_print { 3 } else { 1 }] }
    pub fn total(&self) -> u64 { self.dims().iter().map(|d| *d as u64).product() }
    pub fn get(&self, idx: u64) -> Case {
        let d = self.dims();
        let mut i = idx as usize;
        let mut take = |n: usize| { let k = i % n; i /= n; k };
        let (li, pre, cutform, ri, la, qi, pr) = (take(d[0]), take(d[1]), take(d[2]), take(d[3]), take(d[4]), take(d[5]), take(d[6]));
        let xv = x();
        let mut body: Vec<G> = vec![];
        if pre == 1 { body.push(call("gen", vec![var("$W")])); }
        let left = self.lefts[li].clone();
        let prt = || G::Print(vec![xv.clone()]);
        match cutform {
            // plain: LEFT, !, RIGHT
            0 => { body.push(left); if pr == 1 { body.push(prt()); } body.push(G::Cut); if pr == 2 { body.push(prt()); } }
            // the cut closes a parenthesised group: (LEFT, !), RIGHT
            1 => { let mut g = vec![left]; if pr == 1 { g.push(prt()); } g.push(G::Cut); body.push(G::And(g)); if pr == 2 { body.push(prt()); } }
            // the cut is the second alternative's first goal: (none ; (!, LEFT)) -- nothing to its left but the choice itself
            _ => { body.push(G::Or(vec![call("none", vec![xv.clone()]), G::And(vec![left, G::Cut])])); if pr >= 1 { body.push(prt()); } }
        }
        if let Some(r) = &self.rights[ri] { body.push(r.clone()); }
        let mut clauses = vec![
            fact("gen", vec![T::Int(1)]), fact("gen", vec![T::Int(2)]), fact("gen", vec![T::Int(3)]),
            fact("none", vec![T::Int(99)]),
            fact("two", vec![T::Int(1)]), rule("two", vec![xv.clone()], G::Or(vec![G::Unify(xv.clone(), T::Int(2)), G::Unify(xv.clone(), T::Int(3))])),
            fact("mem", vec![xv.clone(), mk_list(vec![xv.clone()], Some(var("$Rest")))]),
            rule("mem", vec![xv.clone(), mk_list(vec![var("$Y")], Some(var("$T")))], call("mem", vec![xv.clone(), var("$T")])),
            rule("r", vec![xv.clone(), var("$Y")], G::And(vec![call("gen", vec![var("$Y")]), call("p", vec![xv.clone()])])),
            rule("s", vec![xv.clone(), var("$Y")], G::And(vec![call("p", vec![xv.clone()]), call("gen", vec![var("$Y")])])),
            rule("p", vec![xv.clone()], if body.len() == 1 { body.pop().unwrap() } else { G::And(body) }),
        ];
        clauses.extend(self.laters[la].iter().cloned());
        let (qname, qargs) = self.queries[qi].clone();
        Case { prog: Program { clauses }, qname, qargs }
    }
}

/// Repetition family (complete enumeration): goals that succeed several times *without binding
/// anything* (`vote($_)`, a ground call matching several clauses, a zero-arity predicate with
/// two facts, `(1 = 1 ; 2 = 2)`), in first and second position of a conjunction, with prints
/// between them and failure-driven loops after them. Answer multiplicity and the number of
/// times each print runs depend on every retry being executed.
pub struct RepeatFamily { ms: Vec<G>, tails: Vec<Option<G>>, laters: Vec<Vec<Clause>>, queries: Vec<(String, Vec<T>)>, with_print: bool }

impl RepeatFamily {
    pub fn new(with_print: bool) -> RepeatFamily {
        let xv = x();
        let i = |k: i64| T::Int(k);
        let ms = vec![
            call("vote", vec![T::Anon]), call("vote", vec![atom("yes")]), call("flag", vec![]),
            G::Or(vec![G::Unify(i(1), i(1)), G::Unify(i(2), i(2))]),
            call("gen", vec![T::Anon]), call("mem", vec![i(2), list(vec![i(2), i(1), i(2)])]),
            G::Not(Box::new(call("none", vec![i(1)]))), call("gen", vec![xv.clone()]),
        ];
        let tails = vec![None, Some(G::Fail), Some(G::Cmp(Cmp::Eq, xv.clone(), i(2))), Some(G::Nl)];
        let laters = vec![vec![], vec![rule("p", vec![xv.clone()], G::Unify(xv.clone(), i(7)))], vec![fact("p", vec![i(2)])]];
        let queries = vec![("p".into(), vec![xv.clone()]), ("p".into(), vec![i(2)])];
        RepeatFamily { ms, tails, laters, queries, with_print }
    }
    fn dims(&self) -> [usize; 6] { [self.ms.len(), self.ms.len(), self.tails.len(), self.laters.len(), self.queries.len(), if self.with_print { 4 } else { 1 }] }
    pub fn total(&self) -> u64 { self.dims().iter().map(|d| *d as u64).product() }
    pub fn get(&self, idx: u64) -> Case {
        let d = self.dims();
        let mut i = idx as usize;
        let mut take = |n: usize| { let k = i % n; i /= n; k };
        let (a, b, t, la, qi, pr) = (take(d[0]), take(d[1]), take(d[2]), take(d[3]), take(d[4]), take(d[5]));
        let xv = x();
        let mut body = vec![self.ms[a].clone()];
        if pr == 1 || pr == 3 { body.push(G::Print(vec![atom("*")])); }
        body.push(self.ms[b].clone());
        if pr == 2 || pr == 3 { body.push(G::Print(vec![atom("+")])); }
        if let Some(g) = &self.tails[t] { body.push(g.clone()); }
        let mut clauses = vec![
            fact("vote", vec![atom("yes")]), fact("vote", vec![atom("no")]), fact("vote", vec![atom("yes")]),
            fact("flag", vec![]), fact("flag", vec![]),
            fact("gen", vec![T::Int(1)]), fact("gen", vec![T::Int(2)]), fact("gen", vec![T::Int(3)]),
            fact("none", vec![T::Int(99)]),
            fact("mem", vec![xv.clone(), mk_list(vec![xv.clone()], Some(var("$Rest")))]),
            rule("mem", vec![xv.clone(), mk_list(vec![var("$Y")], Some(var("$T")))], call("mem", vec![xv.clone(), var("$T")])),
            rule("p", vec![xv.clone()], G::And(body)),
        ];
        clauses.extend(self.laters[la].iter().cloned());
        let (qname, qargs) = self.queries[qi].clone();
        Case { prog: Program { clauses }, qname, qargs }
    }
}

/// not-focused family (complete enumeration): `PRE, not(G), POST` with G over predicates whose
/// facts are ground, non-ground (`$_`, repeated variables, list patterns) or numerically
/// look-alike (1 vs 1.0); G ground, partly bound or unbound at the call; G a call, a
/// conjunction, a disjunction, a nested not, a unification or a comparison.
pub struct NotFamily { pub pres: Vec<Option<G>>, pub gs: Vec<G>, posts: Vec<Option<G>>, queries: Vec<(String, Vec<T>)> }

impl NotFamily {
    pub fn new() -> NotFamily {
        let xv = x(); let y = var("$Y"); let z = var("$Z");
        let c = |n: &str, a: Vec<T>| call(n, a);
        let i = |k: i64| T::Int(k);
        let pres = vec![None, Some(c("gen", vec![xv.clone()])), Some(G::Unify(xv.clone(), i(2))), Some(G::Unify(xv.clone(), T::Float(1.0))), Some(G::Unify(xv.clone(), atom("a")))];
        let gs = vec![
            c("gen", vec![xv.clone()]), c("none", vec![xv.clone()]),
            c("same", vec![xv.clone(), xv.clone()]), c("same", vec![xv.clone(), i(2)]), c("same", vec![i(1), i(2)]), c("same", vec![i(2), i(2)]),
            c("blocked", vec![xv.clone(), atom("vault")]), c("blocked", vec![atom("a"), atom("safe")]), c("blocked", vec![atom("a"), atom("vault")]),
            c("pt", vec![xv.clone(), i(5)]), c("pt", vec![i(1), i(5)]), c("pt", vec![i(2), i(5)]),
            c("pair", vec![xv.clone(), list(vec![i(2), i(3)])]), c("pair", vec![i(2), list(vec![i(2)])]), c("pair", vec![i(2), list(vec![i(3)])]),
            c("val", vec![T::Float(1.0)]), c("val", vec![i(1)]), c("val", vec![xv.clone()]),
            G::And(vec![c("gen", vec![xv.clone()]), G::Cmp(Cmp::Gt, xv.clone(), i(2))]),
            G::Or(vec![c("none", vec![xv.clone()]), c("gen", vec![xv.clone()])]),
            G::Not(Box::new(c("gen", vec![xv.clone()]))),
            G::Unify(xv.clone(), i(2)), G::Cmp(Cmp::Eq, xv.clone(), i(2)),
            c("gen", vec![z.clone()]), c("same", vec![xv.clone(), z.clone()]),
            c("wrap", vec![cplx("f", vec![xv.clone()])]), c("wrap", vec![cplx("f", vec![i(7)])]),
        ];
        let posts = vec![None, Some(c("gen", vec![y.clone()])), Some(G::Unify(y.clone(), xv.clone())), Some(c("same", vec![xv.clone(), y.clone()]))];
        let queries = vec![("p".into(), vec![xv.clone(), y.clone()]), ("p".into(), vec![i(2), y.clone()]), ("p".into(), vec![i(1), y.clone()]), ("rr".into(), vec![xv.clone(), y.clone()])];
        NotFamily { pres, gs, posts, queries }
    }
    pub fn total(&self) -> u64 { (self.pres.len() * self.gs.len() * self.posts.len() * self.queries.len() * 2) as u64 }
    /// The knowledge base of the family without the clause for p/2.
    pub fn base_clauses(&self) -> Vec<Clause> { let mut c = self.get(0).prog.clauses; c.retain(|cl| cl.name != "p" && cl.name != "rr"); c }
    pub fn get(&self, idx: u64) -> Case {
        let mut i = idx as usize;
        let mut take = |n: usize| { let k = i % n; i /= n; k };
        let (gi, pi, po, qi, twice) = (take(self.gs.len()), take(self.pres.len()), take(self.posts.len()), take(self.queries.len()), take(2));
        let xv = x(); let y = var("$Y");
        let mut body: Vec<G> = vec![];
        if let Some(g) = &self.pres[pi] { body.push(g.clone()); }
        body.push(G::Not(Box::new(self.gs[gi].clone())));
        // the same not() goal a second time in the body (an answer remembered from the first
        // execution must not be reused under different bindings)
        if twice == 1 { body.push(G::Or(vec![G::Unify(var("$V"), T::Int(0)), G::Not(Box::new(self.gs[gi].clone()))])); }
        if let Some(g) = &self.posts[po] { body.push(g.clone()); }
        let a = var("$A");
        let clauses = vec![
            fact("gen", vec![T::Int(1)]), fact("gen", vec![T::Int(2)]), fact("gen", vec![T::Int(3)]),
            fact("none", vec![T::Int(99)]),
            fact("same", vec![a.clone(), a.clone()]),
            fact("blocked", vec![T::Anon, atom("vault")]),
            fact("pt", vec![T::Int(1), y.clone()]),
            fact("pair", vec![a.clone(), mk_list(vec![a.clone()], Some(var("$T")))]),
            fact("val", vec![T::Int(1)]),
            fact("wrap", vec![cplx("f", vec![T::Anon])]),
            rule("rr", vec![xv.clone(), y.clone()], G::And(vec![call("gen", vec![xv.clone()]), call("p", vec![xv.clone(), y.clone()])])),
            rule("p", vec![xv.clone(), y.clone()], if body.len() == 1 { body.pop().unwrap() } else { G::And(body) }),
        ];
        let (qname, qargs) = self.queries[qi].clone();
        Case { prog: Program { clauses }, qname, qargs }
    }
}

// ------------------------------------------------------------------ random programs

const CONSTS: [&str; 3] = ["a", "b", "c"];
const CVARS: [&str; 4] = ["$X", "$Y", "$Z", "$W"];

pub struct ProgGen<'r> { pub r: &'r mut Rng, pub f: Feat, arities: Vec<usize>, templates: Vec<&'static str> }

fn templates_src() -> Vec<(&'static str, Vec<Clause>)> {
    let (h, t, l, r_, n, m) = (var("$H"), var("$T"), var("$L"), var("$R"), var("$N"), var("$M"));
    vec![
        ("mem", vec![
            fact("mem", vec![x(), mk_list(vec![x()], Some(var("$Rest")))]),
            rule("mem", vec![x(), mk_list(vec![var("$Y")], Some(t.clone()))], call("mem", vec![x(), t.clone()])),
        ]),
        ("app", vec![
            fact("app", vec![list(vec![]), l.clone(), l.clone()]),
            rule("app", vec![mk_list(vec![h.clone()], Some(t.clone())), l.clone(), mk_list(vec![h.clone()], Some(r_.clone()))],
                 call("app", vec![t.clone(), l.clone(), r_.clone()])),
        ]),
        ("len", vec![
            fact("len", vec![list(vec![]), T::Int(0)]),
            rule("len", vec![mk_list(vec![h.clone()], Some(t.clone())), n.clone()],
                 G::And(vec![call("len", vec![t.clone(), m.clone()]), G::Unify(n.clone(), func("add", vec![m.clone(), T::Int(1)]))])),
        ]),
        ("down", vec![
            fact("down", vec![T::Int(0), list(vec![])]),
            rule("down", vec![n.clone(), mk_list(vec![n.clone()], Some(t.clone()))],
                 G::And(vec![G::Cmp(Cmp::Gt, n.clone(), T::Int(0)), G::Unify(m.clone(), func("subtract", vec![n.clone(), T::Int(1)])), call("down", vec![m.clone(), t.clone()])])),
        ]),
        // print formats held in a variable (only offered to programs that print)
        ("fmt", vec![
            fact("fmt", vec![atom("%s is big; ")]), fact("fmt", vec![atom("<%s>")]), fact("fmt", vec![atom("plain ")]), fact("fmt", vec![atom("%s")]),
        ]),
        // ground facts holding literal lists, called with list patterns whose tail is already bound
        ("route", vec![
            fact("route", vec![list(vec![atom("a"), atom("b"), atom("c")])]), fact("route", vec![list(vec![atom("a")])]), fact("route", vec![list(vec![])]),
            fact("route", vec![list(vec![atom("b"), list(vec![atom("c")])])]),
        ]),
        // terminating recursion through negation, the same predicate negated at every level
        ("win", vec![
            fact("move", vec![atom("a"), atom("b")]), fact("move", vec![atom("b"), atom("c")]), fact("move", vec![atom("c"), atom("d")]), fact("move", vec![atom("a"), atom("e")]),
            rule("win", vec![x()], G::And(vec![call("move", vec![x(), var("$Y")]), G::Not(Box::new(call("win", vec![var("$Y")])))])),
        ]),
        ("even", vec![
            fact("even", vec![T::Int(0)]),
            rule("even", vec![n.clone()], G::And(vec![G::Cmp(Cmp::Gt, n.clone(), T::Int(0)), G::Unify(m.clone(), func("subtract", vec![n.clone(), T::Int(1)])), G::Not(Box::new(call("even", vec![m.clone()])))])),
        ]),
        ("rev", vec![
            fact("rev", vec![list(vec![]), l.clone(), l.clone()]),
            rule("rev", vec![mk_list(vec![h.clone()], Some(t.clone())), l.clone(), r_.clone()],
                 call("rev", vec![t.clone(), mk_list(vec![h.clone()], Some(l.clone())), r_.clone()])),
        ]),
    ]
}

impl<'r> ProgGen<'r> {
    pub fn new(r: &'r mut Rng, f: Feat) -> ProgGen<'r> { ProgGen { r, f, arities: vec![], templates: vec![] } }

    fn constant(&mut self) -> T {
        // 1 / 1.0 and 2 / 2.0 print alike but are different values
        match self.r.below(9) { 0..=3 => atom(CONSTS[self.r.below(3)]), 4 | 5 => T::Int(self.r.below(4) as i64), 6 => T::Float(1.5), 7 => T::Float(1.0), _ => T::Float(2.0) }
    }
    fn cvar(&mut self) -> T { var(CVARS[self.r.below(CVARS.len())]) }
    fn ground_list(&mut self) -> T { let n = self.r.range(0, 3); list((0..n).map(|_| self.constant()).collect()) }

    fn term(&mut self, depth: usize) -> T {
        let k = self.r.below(12);
        if depth == 0 || k < 6 {
            return match k % 6 { 0 | 1 => self.cvar(), 2 | 3 => self.constant(), 4 => if self.f.anon { T::Anon } else { self.cvar() }, _ => list(vec![]) };
        }
        match k {
            6 | 7 => { let n = self.r.range(1, 2); cplx(["f", "g"][self.r.below(2)], (0..n).map(|_| self.term(depth - 1)).collect()) }
            8 | 9 => { let n = self.r.range(1, 3); list((0..n).map(|_| self.term(depth - 1)).collect()) }
            _ => { let n = self.r.range(1, 2); let tl = self.cvar(); mk_list((0..n).map(|_| self.term(depth - 1)).collect(), Some(tl)) }
        }
    }

    fn call_to(&mut self, lo: usize) -> Option<G> {
        // user predicates with index >= lo, or a template
        let n = self.arities.len();
        let choices = n.saturating_sub(lo) + self.templates.len();
        if choices == 0 { return None; }
        let c = self.r.below(choices);
        if c < n.saturating_sub(lo) {
            let j = lo + c;
            let args = (0..self.arities[j]).map(|_| if self.r.chance(2, 3) { self.cvar() } else { self.term(1) }).collect();
            return Some(call(&format!("p{}", j), args));
        }
        let t = self.templates[c - n.saturating_sub(lo)];
        Some(match t {
            "mem" => call("mem", vec![if self.r.chance(3, 4) { self.cvar() } else { self.constant() }, self.ground_list()]),
            "app" => if self.r.chance(1, 2) { call("app", vec![self.cvar(), self.cvar(), self.ground_list()]) }
                     else { call("app", vec![self.ground_list(), self.ground_list(), self.cvar()]) },
            "len" => call("len", vec![self.ground_list(), self.cvar()]),
            "down" => call("down", vec![T::Int(self.r.below(4) as i64), self.cvar()]),
            "route" => {
                let t = self.cvar();
                let tailv = [list(vec![atom("b"), atom("c")]), list(vec![]), list(vec![atom("c")]), list(vec![list(vec![atom("c")])])][self.r.below(4)].clone();
                let first = [atom("a"), atom("b"), self.cvar()][self.r.below(3)].clone();
                G::And(vec![G::Unify(t.clone(), tailv), call("route", vec![mk_list(vec![first], Some(t))])])
            }
            "win" => call("win", vec![if self.r.chance(1, 2) { self.cvar() } else { atom(["a", "b", "c", "d", "e"][self.r.below(5)]) }]),
            "even" => call("even", vec![T::Int(self.r.below(5) as i64)]),
            "fmt" => { let f = self.cvar(); G::And(vec![call("fmt", vec![f.clone()]), G::Print(vec![f, self.constant()])]) }
            _ => call("rev", vec![self.ground_list(), list(vec![]), self.cvar()]),
        })
    }

    fn simple_goal(&mut self, lo: usize) -> G {
        let k = self.r.below(100);
        if k < 40 { if let Some(g) = self.call_to(lo) { return g; } }
        if k < 55 { return G::Unify(self.cvar(), self.term(2)); }
        if k < 60 { return G::Unify(self.term(1), self.term(1)); }
        if k < 68 { return G::Cmp(Cmp::ALL[self.r.below(5)], if self.r.chance(2, 3) { self.cvar() } else { self.constant() }, self.constant()); }
        if k < 72 { return G::Unify(self.cvar(), func(["add", "subtract", "multiply"][self.r.below(3)], vec![if self.r.chance(1, 2) { self.cvar() } else { T::Int(self.r.below(4) as i64) }, T::Int(self.r.range(1, 3) as i64)])); }
        if self.f.builtins && k < 82 {
            return match self.r.below(5) {
                0 => G::Append(vec![if self.r.chance(1, 2) { self.ground_list() } else { self.cvar() }, self.ground_list(), self.cvar()]),
                1 => G::Count(if self.r.chance(1, 2) { self.ground_list() } else { self.cvar() }, self.cvar()),
                2 => G::Include(self.term(1), self.ground_list(), self.cvar()),
                3 => G::Exclude(self.term(1), self.ground_list(), self.cvar()),
                _ => G::Functor(vec![cplx("f", vec![self.constant()]), self.cvar(), self.cvar()]),
            };
        }
        if self.f.cut && k < 88 { return G::Cut; }
        if self.f.fail && k < 90 { return G::Fail; }
        if self.f.print && k < 96 {
            return match self.r.below(4) {
                0 => G::Print(vec![self.cvar()]),
                1 => G::Print(vec![atom(["x", "hello world", "<", "é"][self.r.below(4)])]),
                2 => G::Print(vec![atom("%s-%s"), self.cvar(), self.constant()]),
                _ => if self.r.chance(1, 2) { G::Nl } else { G::PrintList(vec![if self.r.chance(1, 2) { self.ground_list() } else { self.cvar() }]) },
            };
        }
        if self.f.not && k < 100 {
            let inner = match self.r.below(4) {
                0 => self.call_to(lo).unwrap_or(G::Fail),
                1 => G::Unify(self.cvar(), self.constant()),
                2 => G::Cmp(Cmp::ALL[self.r.below(5)], self.cvar(), self.constant()),
                _ => { let a = self.call_to(lo).unwrap_or(G::Fail); let b = G::Unify(self.cvar(), self.constant()); if self.r.chance(1, 2) { G::And(vec![a, b]) } else { G::Or(vec![a, b]) } }
            };
            return G::Not(Box::new(inner));
        }
        self.call_to(lo).unwrap_or_else(|| G::Unify(self.cvar(), self.constant()))
    }

    fn body(&mut self, lo: usize, depth: usize) -> G {
        let n = self.r.range(1, 3);
        let mut gs = vec![];
        for _ in 0..n {
            if depth > 0 && self.r.chance(1, 6) {
                let m = 2;
                let alts: Vec<G> = (0..m).map(|_| self.body(lo, depth - 1)).collect();
                gs.push(G::Or(alts));
            } else if depth > 0 && self.r.chance(1, 12) {
                gs.push(self.body(lo, depth - 1));   // nested conjunction group
            } else {
                gs.push(self.simple_goal(lo));
            }
        }
        if gs.len() == 1 { gs.pop().unwrap() } else { G::And(gs) }
    }

    pub fn program(&mut self) -> Case {
        let npred = self.r.range(2, 4);
        self.arities = (0..npred).map(|_| self.r.range(0, 3)).collect();
        let all = templates_src();
        self.templates = vec![];
        let mut clauses: Vec<Clause> = vec![];
        for (name, cl) in &all {
            if *name == "fmt" && !self.f.print { continue; }
            if (*name == "win" || *name == "even") && !self.f.not { continue; }
            if self.r.chance(1, 3) { self.templates.push(name); clauses.extend(cl.iter().cloned()); }
        }
        for i in 0..npred {
            let nc = self.r.range(1, 3);
            for _ in 0..nc {
                let args: Vec<T> = (0..self.arities[i]).map(|_| self.term(2)).collect();
                let bottom = i + 1 >= npred && self.templates.is_empty();
                let body = if self.r.chance(if bottom { 3 } else { 1 }, 4) { None } else { Some(self.body(i + 1, 1)) };
                clauses.push(Clause { name: format!("p{}", i), args, body });
            }
        }
        // interleave clause order of different predicates (order within a predicate matters only)
        let qi = self.r.below(npred.min(2));
        let qargs: Vec<T> = (0..self.arities[qi]).map(|_| if self.r.chance(2, 3) { var(["$A", "$B", "$C"][self.r.below(3)]) } else { self.term(1).map_vars(&mut |_, _| var("$A")) }).collect();
        Case { prog: Program { clauses }, qname: format!("p{}", qi), qargs }
    }
}

pub fn random_case(seed: u64, stream: u64, idx: u64, f: Feat) -> Case {
    let mut r = Rng::for_case(seed, stream, idx);
    let mut g = ProgGen::new(&mut r, f);
    g.program()
}

/// Makes a program rich in `$_`: every variable that occurs exactly once in its clause, in
/// the head or in the arguments of a call or `=` goal (at any depth), is written as `$_`.
pub fn anonymize_singletons(c: &Case) -> Case {
    let clauses = c.prog.clauses.iter().map(|cl| {
        let mut counts: Vec<((String, u32), usize)> = vec![];
        let mut bump = |t: &T| { t.map_vars(&mut |n, i| { match counts.iter_mut().find(|(k, _)| k.0 == n && k.1 == i) { Some(e) => e.1 += 1, None => counts.push(((n.to_string(), i), 1)) } T::Var(n.to_string(), i) }); };
        for a in &cl.args { bump(a); }
        if let Some(b) = &cl.body { for t in b.terms() { bump(&t); } }
        let single = |n: &str, i: u32| counts.iter().any(|(k, c)| k.0 == n && k.1 == i && *c == 1);
        let anon = |t: &T| t.map_vars(&mut |n, i| if single(n, i) { T::Anon } else { T::Var(n.to_string(), i) });
        fn walk(g: &G, anon: &dyn Fn(&T) -> T) -> G {
            match g {
                G::Call(n, a) => G::Call(n.clone(), a.iter().map(|t| anon(t)).collect()),
                G::Unify(a, b) if !a.has_func() && !b.has_func() => G::Unify(anon(a), anon(b)),
                G::And(gs) => G::And(gs.iter().map(|x| walk(x, anon)).collect()),
                G::Or(gs) => G::Or(gs.iter().map(|x| walk(x, anon)).collect()),
                G::Not(x) => G::Not(Box::new(walk(x, anon))),
                other => other.clone(),
            }
        }
        Clause { name: cl.name.clone(), args: cl.args.iter().map(|t| anon(t)).collect(), body: cl.body.as_ref().map(|b| walk(b, &anon)) }
    }).collect();
    Case { prog: Program { clauses }, qname: c.qname.clone(), qargs: c.qargs.clone() }
}

/// Consistent renaming of clause variables (C11). mode: 0 random fresh names, 1 use the
/// query's names, 2 same names in every clause, 3 names that are prefixes of each other.
pub fn alpha_rename(c: &Case, mode: usize, r: &mut Rng) -> Case {
    let mut qv = vec![]; for a in &c.qargs { a.vars(&mut qv); }
    let pool: Vec<String> = match mode {
        1 => { let mut p: Vec<String> = qv.iter().map(|(n, _)| n.clone()).collect(); p.extend(["$A", "$B", "$C", "$D", "$E", "$F", "$G", "$H"].iter().map(|s| s.to_string())); p }
        2 => (0..12).map(|i| format!("$V{}", i)).collect(),
        3 => (0..12).map(|i| format!("$A{}", "a".repeat(i))).collect(),
        _ => (0..12).map(|i| format!("$N{}_{}", r.below(1000), i)).collect(),
    };
    let clauses = c.prog.clauses.iter().map(|cl| {
        let vs = cl.vars();
        let mut names: Vec<String> = pool.clone();
        if mode == 0 { r.shuffle(&mut names); }
        // distinct names within the clause
        let mut uniq: Vec<String> = vec![];
        for n in names { if !uniq.contains(&n) { uniq.push(n); } }
        let mut k = 0;
        while uniq.len() < vs.len() { uniq.push(format!("$Extra{}", k)); k += 1; }
        cl.map_terms(&mut |t| t.map_vars(&mut |n, i| {
            let p = vs.iter().position(|(a, b)| a == n && *b == i).unwrap();
            T::Var(uniq[p].clone(), 0)
        }))
    }).collect();
    Case { prog: Program { clauses }, qname: c.qname.clone(), qargs: c.qargs.clone() }
}

#[cfg(test)]
mod test {
    use super::*;
    #[test]
    fn lazy_bodies_equal_materialised() {
        let f = Feat { cut: true, not: true, print: true, fail: true, ..Feat::default() };
        let alpha = shape_alphabet(f);
        for k in 1..=3 {
            let all = shape_bodies(&alpha, k);
            assert_eq!(all.len(), shape_body_count(alpha.len(), k));
            for (i, b) in all.iter().enumerate() { assert_eq!(*b, shape_body_at(&alpha, k, i)); }
        }
    }
}
