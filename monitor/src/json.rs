//! Minimal JSON writer (strings, numbers, objects built by hand).
pub fn esc(s: &str) -> String {
    let mut o = String::with_capacity(s.len() + 2);
    o.push('"');
    for c in s.chars() {
        match c {
            '"' => o.push_str("\\\""),
            '\\' => o.push_str("\\\\"),
            '\n' => o.push_str("\\n"),
            '\r' => o.push_str("\\r"),
            '\t' => o.push_str("\\t"),
            c if (c as u32) < 0x20 => o.push_str(&format!("\\u{:04x}", c as u32)),
            c => o.push(c),
        }
    }
    o.push('"');
    o
}

/// Builds `{"k": v, ...}` where every v is already valid JSON text.
pub fn obj(pairs: &[(&str, String)]) -> String {
    let mut o = String::from("{");
    for (i, (k, v)) in pairs.iter().enumerate() {
        if i > 0 { o.push_str(", "); }
        o.push_str(&esc(k)); o.push_str(": "); o.push_str(v);
    }
    o.push('}');
    o
}

pub fn arr(items: &[String]) -> String { format!("[{}]", items.join(", ")) }
pub fn strs(items: &[String]) -> String { arr(&items.iter().map(|s| esc(s)).collect::<Vec<_>>()) }
