//! Debug helper: `probe2 <entry index> <input>` times one parser entry point; `probe2 goal <input>` prints generate_goal's result
use std::time::Instant;
fn main() {
    let a: Vec<String> = std::env::args().collect();
    if a[1] == "goal" { match suiron::generate_goal(&a[2]) { Ok(g) => println!("Ok: {}   {:?}", g, g), Err(e) => println!("Err: {}", e) } return; }
    let k: usize = a[1].parse().unwrap();
    let t = Instant::now();
    let r = suiron_monitor::props::parse::call_entry(k, &a[2]);
    println!("{} {:?} {:.3}s", suiron_monitor::props::parse::ENTRY[k], r.map_err(|p| p.msg), t.elapsed().as_secs_f64());
}
