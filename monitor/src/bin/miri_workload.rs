//! FFI-free driver for the undefined-behaviour lanes (Miri, AddressSanitizer): generated
//! programs with cut / not / nested and-or / print, re-asking, parsing, several queries per
//! process, and the query timer thread (cancelled, firing during a search, firing after one).
//!   miri_workload <seed> <shard> <nshards> <programs> <strings> <timer_cases>
use std::rc::Rc;
use suiron::*;
use suiron_monitor::adapter::*;
use suiron_monitor::gen_prog::*;
use suiron_monitor::gen_text;
use suiron_monitor::props::search::query_goal;
use suiron_monitor::rinterp;
use suiron_monitor::rng::*;
use suiron_monitor::rt::*;

struct Counts { programs: u64, skipped: u64, next_solution: u64, answers: u64, reasks: u64, cuts: u64, nots: u64, prints: u64, solve: u64, solve_all: u64,
                parses: u64, parse_ok: u64, timers_started: u64, timer_fired_during_search: u64, timer_fired_after_search: u64, panics: u64, kb_replaced_in_place: u64 }

fn drive(c: &Case, cnt: &mut Counts, with_timer_api: bool, slot: Option<&mut KnowledgeBase>) {
    // in-domain, terminating cases only (screened by the reference model)
    let refr = match rinterp::solve(&c.prog, &c.qname, &c.qargs, 3_000, 12) { Ok(r) => r, Err(_) => { cnt.skipped += 1; return; } };
    cnt.programs += 1;
    let nontrivial = refr.stats.cuts + refr.stats.not_true + refr.stats.not_false > 0 || refr.stats.clause_retries + refr.stats.or_retries > 0;
    println!("MIRI-CASE {} {}", hash_str(&c.text()), if nontrivial { 1 } else { 0 });
    if cnt.programs <= 2 { println!("MIRI-SAMPLE {}", suiron_monitor::json::esc(&c.text())); }
    cnt.cuts += refr.stats.cuts; cnt.nots += refr.stats.not_true + refr.stats.not_false; cnt.prints += refr.stats.prints;
    // Two ways an application holds its knowledge base: a fresh one per program, or one
    // long-lived variable into which a newly built knowledge base is moved (the old one is
    // dropped in place; the new one was filled elsewhere).
    let local;
    let kb: &KnowledgeBase = match slot {
        Some(s) => { *s = program_to_kb(&c.prog); cnt.kb_replaced_in_place += 1; s }
        None => { local = program_to_kb(&c.prog); &local }
    };
    let r = std::panic::catch_unwind(std::panic::AssertUnwindSafe(|| {
        let query = Rc::new(query_goal(c));
        let sn = make_base_node(Rc::clone(&query), kb);
        let mut n = 0;
        loop {
            let s = next_solution(Rc::clone(&sn));
            n += 1;
            match s { Some(ss) => { let _ = format!("{}", query.replace_variables(&ss)); } None => break }
            if n > 14 { break; }
        }
        // re-ask after exhaustion
        let mut re = 0;
        for _ in 0..2 { let _ = next_solution(Rc::clone(&sn)); re += 1; }
        (n, re)
    }));
    match r { Ok((n, re)) => { cnt.next_solution += n + re; cnt.answers += n.saturating_sub(1); cnt.reasks += re; } Err(_) => cnt.panics += 1 }
    if with_timer_api {
        // second and third query in the same process, through the timer-guarded API
        let r = std::panic::catch_unwind(std::panic::AssertUnwindSafe(|| {
            let sn = make_base_node(Rc::new(query_goal(c)), kb);
            let all = solve_all(sn);
            let sn = make_base_node(Rc::new(query_goal(c)), kb);
            let one = solve(Rc::clone(&sn));
            (all.len(), one.len())
        }));
        match r { Ok(_) => { cnt.solve += 1; cnt.solve_all += 1; cnt.timers_started += 2; } Err(_) => cnt.panics += 1 }
    }
}

fn timer_cases(cnt: &mut Counts, k: u64) {
    // a knowledge base whose search is long enough to be overtaken by a 1 ms timer
    let mut kb = KnowledgeBase::new();
    for i in 0..6 { add_rules(&mut kb, vec![parse_rule(&format!("n({}).", i)).unwrap()]); }
    add_rules(&mut kb, vec![parse_rule("spin :- n($A), n($B), n($C), $A > 100.").unwrap(),
                            parse_rule("slow($X) :- n($X), $X < 2.").unwrap(), parse_rule("slow($X) :- spin, $X = never.").unwrap(),
                            parse_rule("trap($X) :- not(spin), n($X), !.").unwrap()]);
    for i in 0..k {
        let q = ["slow($X)", "trap($X)", "n($X)"][(i % 3) as usize];
        println!("MIRI-CASE {} 1", hash_str(&format!("timer case {} {}", q, i)));
        // (1) timer fires during the search
        // (the query is built first: building one clears the stop flag)
        let sn = make_base_node(Rc::new(parse_query(q).unwrap()), &kb);
        let timer = start_query_timer(1);
        cnt.timers_started += 1;
        let mut n = 0;
        while let Some(_) = next_solution(Rc::clone(&sn)) { n += 1; if n > 20 { break; } }
        cnt.next_solution += n + 1;
        if query_stopped() { cnt.timer_fired_during_search += 1; }
        cancel_timer(timer);
        // (2) timer fires after a finished search
        let sn = make_base_node(Rc::new(parse_query("n(3)").unwrap()), &kb);
        let timer = start_query_timer(1);
        cnt.timers_started += 1;
        let _ = next_solution(Rc::clone(&sn));
        let mut spins = 0;
        while !query_stopped() && spins < 200 { std::thread::sleep(std::time::Duration::from_millis(1)); spins += 1; }
        if query_stopped() { cnt.timer_fired_after_search += 1; }
        cancel_timer(timer);
        // (3) a fresh query afterwards, through solve_all
        let sn = make_base_node(Rc::new(parse_query(q).unwrap()), &kb);
        let _ = solve_all(sn);
        cnt.solve_all += 1; cnt.timers_started += 1;
    }
}

fn main() {
    let a: Vec<u64> = std::env::args().skip(1).map(|s| s.parse().unwrap_or(0)).collect();
    let (seed, shard, nshards, nprog, nstr, ntimer) = (a[0], a[1], a[2].max(1), a[3], a[4], a[5]);
    std::panic::set_hook(Box::new(|_| {}));
    let mut cnt = Counts { programs: 0, skipped: 0, next_solution: 0, answers: 0, reasks: 0, cuts: 0, nots: 0, prints: 0, solve: 0, solve_all: 0,
                           parses: 0, parse_ok: 0, timers_started: 0, timer_fired_during_search: 0, timer_fired_after_search: 0, panics: 0, kb_replaced_in_place: 0 };
    let mut held = KnowledgeBase::new();
    // cut at every body position: the bounded-exhaustive shapes, strided so that all shards
    // together walk the whole list
    let shapes = Shapes::new(Feat { cut: true, not: true, print: true, fail: true, ..Feat::default() }, 3, 2);
    let total = shapes.total();
    let cutfam = CutFamily::new(true);
    let repfam = RepeatFamily::new(true);
    let mut r = Rng::for_case(seed, 24, shard);
    let mut i = 0u64;
    while cnt.programs + cnt.skipped < nprog {
        let c = if i % 4 == 0 || i % 4 == 3 {
            let idx = (mix(seed ^ (i * nshards + shard)) % total) as u64;
            shapes.get(idx)
        } else if i % 4 == 1 {
            // the cut-focused and the repetition family: cuts behind every kind of node, closing
            // groups, inside second alternatives; heads that succeed again without new bindings
            let k = mix(seed ^ 0xC07 ^ (i * nshards + shard));
            if k % 3 == 0 { repfam.get(k / 3 % repfam.total()) } else { cutfam.get(k / 3 % cutfam.total()) }
        } else {
            random_case(seed, 240, i * nshards + shard, Feat { cut: true, not: true, print: true, fail: true, anon: true, builtins: true })
        };
        // runs of programs share the long-lived variable, so that consecutive knowledge bases
        // meet at one address; the others get a knowledge base of their own
        let in_place = (i / 8) % 2 == 0;
        drive(&c, &mut cnt, i % 4 == 0, if in_place { Some(&mut held) } else { None });
        i += 1;
        if i > nprog * 4 { break; }
    }
    // parsers on valid and mutated text
    for _ in 0..nstr {
        let t = match r.below(3) { 0 => show(&gen_text::rand_term(&mut r, 2)), 1 => gen_text::src_clause(&gen_text::rand_clause(&mut r, 1), true), _ => gen_text::src_goal(&gen_text::rand_body(&mut r, 1), true) };
        let t = if r.chance(1, 2) { gen_text::mutate(&mut r, &t) } else { t };
        for k in 0..4 {
            let s = t.clone();
            let ok = std::panic::catch_unwind(move || match k { 0 => parse_term(&s).is_ok(), 1 => parse_rule(&s).is_ok(), 2 => generate_goal(&s).is_ok(), _ => parse_query(&s).is_ok() });
            cnt.parses += 1;
            match ok { Ok(true) => cnt.parse_ok += 1, Ok(false) => {}, Err(_) => cnt.panics += 1 }
        }
    }
    timer_cases(&mut cnt, ntimer);
    println!("MIRI-SUMMARY {{\"shard\": {}, \"programs\": {}, \"skipped\": {}, \"next_solution_calls\": {}, \"answers\": {}, \"reasks\": {}, \"cuts_executed\": {}, \"nots_executed\": {}, \"prints_executed\": {}, \"solve_calls\": {}, \"solve_all_calls\": {}, \"parser_calls\": {}, \"parser_ok\": {}, \"timers_started\": {}, \"timer_fired_during_search\": {}, \"timer_fired_after_search\": {}, \"caught_panics\": {}, \"kb_replaced_in_place\": {}}}",
             shard, cnt.programs, cnt.skipped, cnt.next_solution, cnt.answers, cnt.reasks, cnt.cuts, cnt.nots, cnt.prints, cnt.solve, cnt.solve_all, cnt.parses, cnt.parse_ok,
             cnt.timers_started, cnt.timer_fired_during_search, cnt.timer_fired_after_search, cnt.panics, cnt.kb_replaced_in_place);
}
