//! Runs the cases idx with idx % nshards == shard of one property workload.
use std::collections::HashSet;
use std::fs::{File, OpenOptions};
use std::io::Write;
use std::os::unix::fs::FileExt;
use std::time::Instant;
use suiron_monitor::core::*;
use suiron_monitor::json;
use suiron_monitor::props;

fn main() {
    let args: Vec<String> = std::env::args().collect();
    if args.len() >= 3 && args[1] == "--merge-hashes" {
        // distinct count over the sorted u64 files of all shards
        let mut all: Vec<u64> = vec![];
        for f in &args[2..] {
            if let Ok(b) = std::fs::read(f) { for c in b.chunks_exact(8) { all.push(u64::from_le_bytes(c.try_into().unwrap())); } }
        }
        all.sort_unstable(); all.dedup();
        println!("{}", all.len());
        return;
    }
    if args.len() >= 2 && args[1] == "--calibrate" {
        let child = std::thread::Builder::new().stack_size(1 << 30).spawn(move || suiron_monitor::props::timing::measure_depth()).unwrap();
        match child.join() { Ok(d) => { println!("{}", d); return; } Err(_) => std::process::exit(3) }
    }
    if args.len() >= 5 && args[1] == "--hist" {
        let a: Vec<String> = args[2..].to_vec();
        let child = std::thread::Builder::new().stack_size(1 << 30).spawn(move || suiron_monitor::props::timing::hist_main(&a)).unwrap();
        match child.join() { Ok(code) => std::process::exit(code), Err(_) => std::process::exit(3) }
    }
    if args.len() < 7 {
        eprintln!("usage: worker <prop> <quick|thorough> <seed> <shard> <nshards> <outdir> [--from N] [--only N]");
        std::process::exit(3);
    }
    let child = std::thread::Builder::new().stack_size(1 << 30).spawn(move || run(args)).unwrap();
    match child.join() { Ok(code) => std::process::exit(code), Err(_) => std::process::exit(3) }
}

fn run(args: Vec<String>) -> i32 {
    let prop = args[1].clone();
    let tier = if args[2] == "thorough" { Tier::Thorough } else { Tier::Quick };
    let seed: u64 = args[3].parse().unwrap_or(1);
    let shard: u64 = args[4].parse().unwrap();
    let nshards: u64 = args[5].parse().unwrap();
    let outdir = args[6].clone();
    let mut from: u64 = 0;
    let mut only: Option<u64> = None;
    let mut i = 7;
    while i < args.len() {
        match args[i].as_str() {
            "--from" => { from = args[i + 1].parse().unwrap(); i += 2; }
            "--only" => { only = Some(args[i + 1].parse().unwrap()); i += 2; }
            _ => { i += 1; }
        }
    }
    std::fs::create_dir_all(&outdir).ok();
    let tag = match only { Some(n) => format!("only{}", n), None => format!("{}", shard) };
    let cur = OpenOptions::new().create(true).write(true).open(format!("{}/{}.cur", outdir, tag)).unwrap();
    let mut log = OpenOptions::new().create(true).append(true).open(format!("{}/{}.jsonl", outdir, tag)).unwrap();
    capture_stdout(&format!("{}/{}.stdout", outdir, tag));
    install_panic_hook();

    let start = Instant::now();
    let mut w = match props::make(&prop, tier, seed) {
        Some(w) => w,
        None => { eprintln!("unknown property {}", prop); return 3; }
    };
    let total = w.total();
    let setup_s = start.elapsed().as_secs_f64();

    let mut cases = 0u64; let mut evals = 0u64; let mut held = 0u64; let mut violated = 0u64; let mut inconclusive = 0u64;
    let mut nontrivial = 0u64;
    let mut skipped: Vec<(String, u64)> = vec![];
    let mut counters: Vec<(String, u64)> = vec![];
    let mut hashes: HashSet<u64> = HashSet::new();
    let mut samples: Vec<String> = vec![];
    let mut last_idx = 0u64;

    let mut idx = match only { Some(n) => n, None => { let mut s = shard; while s < from { s += nshards; } s } };
    while idx < total {
        cur.write_all_at(format!("{:<20}", if w.slow_case(idx) { format!("{}L", idx) } else { idx.to_string() }).as_bytes(), 0).ok();
        if only.is_some() {
            let d = w.describe(idx);
            writeln!(log, "{}", json::obj(&[("t", json::esc("begin")), ("idx", idx.to_string()), ("case", if d.is_empty() { "null".into() } else { d })])).ok();
            log.flush().ok();
        }
        // Safety net: the workloads wrap engine calls in `guarded`, but a panic raised inside the
        // repository's code at a call site that is not wrapped must still become an observation
        // about the engine (a violation of "no panic"), not a harness error. A panic raised
        // in the monitor's own code is a harness error and is propagated.
        let _ = take_resource_panic();
        let o = match guarded(|| w.run(idx)) {
            Ok(o) => o,
            Err(p) if suiron::query_stopped() && p.in_engine() => {
                // The panic was raised while the stop flag was set: a timer fired (a second really passed,
                // i.e. the machine stalled or the search exceeds the limit) and the search went on with
                // every new goal failing, which takes it down paths no complete search takes - e.g.
                // into arithmetic on an unbound variable. Not an observation about the property.
                let d = w.describe(idx);
                let mut o = Outcome::new(idx);
                o.sample = d;
                o.evals = 0;
                o.verdict = Verdict::Inconclusive(format!("panic while the stop flag was set (timed-out search): {}", p.msg));
                { let t = suiron::start_query_timer(60_000); suiron::cancel_timer(t); }
                o
            }
            Err(p) => {
                if !p.in_engine() || p.loc.is_empty() { eprintln!("harness panic at case {}: {} at {}", idx, p.msg, p.loc); return 3; }
                let d = w.describe(idx);
                let mut o = Outcome::new(idx);
                o.sample = d.clone();
                o.violate(format!("panic|{}|{}", p.file(), p.kind()),
                          json::obj(&[("kind", json::esc("the engine panicked")), ("panic", json::esc(&p.msg)), ("at", json::esc(&p.loc)), ("case", if d.is_empty() { "null".into() } else { d })]));
                o
            }
        };
        let mut o = o;
        if let Some(m) = take_resource_panic() {
            // the operating system refused a thread or memory during this case: whatever was observed is void
            o.verdict = Verdict::Inconclusive(format!("resource exhaustion during the case: {}", m));
        }
        last_idx = idx;
        cases += 1; evals += o.evals;
        for (k, n) in &o.counters {
            match counters.iter_mut().find(|c| c.0 == *k) { Some(c) => c.1 += n, None => counters.push((k.to_string(), *n)) }
        }
        match &o.verdict {
            Verdict::Held => {
                held += 1;
                if o.nontrivial {
                    nontrivial += 1;
                    if hashes.insert(o.hash) && samples.len() < 3 && !o.sample.is_empty() && (idx / nshards.max(1)) % 7 == 0 { samples.push(o.sample.clone()); }
                }
            }
            Verdict::Skipped(r) => match skipped.iter_mut().find(|c| c.0 == *r) { Some(c) => c.1 += 1, None => skipped.push((r.to_string(), 1)) },
            Verdict::Inconclusive(r) => {
                inconclusive += 1;
                writeln!(log, "{}", json::obj(&[("t", json::esc("inconclusive")), ("idx", idx.to_string()), ("reason", json::esc(r)), ("case", if o.sample.is_empty() { "null".into() } else { o.sample.clone() })])).ok();
            }
            Verdict::Violated { sig, witness } => {
                violated += 1;
                writeln!(log, "{}", json::obj(&[("t", json::esc("violation")), ("idx", idx.to_string()), ("sig", json::esc(sig)), ("witness", witness.clone()),
                                                 ("case", if o.sample.is_empty() { "null".into() } else { o.sample.clone() })])).ok();
                log.flush().ok();
            }
        }
        if only.is_some() {
            writeln!(log, "{}", json::obj(&[("t", json::esc("single")), ("idx", idx.to_string()),
                ("verdict", json::esc(match &o.verdict { Verdict::Held => "held", Verdict::Skipped(_) => "skipped", Verdict::Inconclusive(_) => "inconclusive", Verdict::Violated { .. } => "violated" })),
                ("case", if o.sample.is_empty() { "null".into() } else { o.sample.clone() })])).ok();
            break;
        }
        idx += nshards;
    }
    cur.write_all_at(format!("{:<20}", "done").as_bytes(), 0).ok();

    // distinct non-trivial hashes for cross-shard merging
    if only.is_none() {
        let mut hf = File::create(format!("{}/{}.hashes", outdir, tag)).unwrap();
        let mut v: Vec<u64> = hashes.iter().cloned().collect();
        v.sort();
        let mut buf = Vec::with_capacity(v.len() * 8);
        for h in &v { buf.extend_from_slice(&h.to_le_bytes()); }
        hf.write_all(&buf).ok();
    }
    let kv = |v: &Vec<(String, u64)>| json::obj(&v.iter().map(|(k, n)| (k.as_str(), n.to_string())).collect::<Vec<_>>());
    writeln!(log, "{}", json::obj(&[
        ("t", json::esc("summary")), ("prop", json::esc(&prop)), ("shard", shard.to_string()), ("nshards", nshards.to_string()),
        ("total", total.to_string()), ("cases", cases.to_string()), ("last_idx", last_idx.to_string()), ("evals", evals.to_string()),
        ("held", held.to_string()), ("violated", violated.to_string()), ("inconclusive", inconclusive.to_string()),
        ("nontrivial", nontrivial.to_string()), ("distinct_nontrivial_shard", hashes.len().to_string()),
        ("skipped", kv(&skipped)), ("counters", kv(&counters)), ("samples", json::arr(&samples)),
        ("rule", json::esc(&w.rule())), ("exhaustive_part", match w.exhaustive_part() { Some(s) => json::esc(&s), None => "null".into() }),
        ("setup_s", format!("{:.3}", setup_s)), ("wall_s", format!("{:.3}", start.elapsed().as_secs_f64())),
    ])).ok();
    log.flush().ok();
    0
}
