//! Debug helper: probe unify "A = B" "C = D" ...   (terms parsed by the engine's parser)
use std::collections::HashMap;
use std::rc::Rc;
use suiron::*;

fn number(u: Unifiable, ids: &mut HashMap<String, usize>) -> Unifiable {
    match u {
        Unifiable::LogicVar { name, .. } => { let n = ids.len() + 1; let id = *ids.entry(name.clone()).or_insert(n); Unifiable::LogicVar { id, name } }
        Unifiable::SComplex(v) => Unifiable::SComplex(v.into_iter().map(|x| number(x, ids)).collect()),
        Unifiable::SFunction { name, terms } => Unifiable::SFunction { name, terms: terms.into_iter().map(|x| number(x, ids)).collect() },
        Unifiable::SLinkedList { term, next, count, tail_var } =>
            Unifiable::SLinkedList { term: Box::new(number(*term, ids)), next: Box::new(number(*next, ids)), count, tail_var },
        x => x,
    }
}

fn main() {
    let args: Vec<String> = std::env::args().collect();
    if args[1] == "parse" {
        for a in &args[2..] {
            println!("--- {:?}", a);
            for k in 0..suiron_monitor::props::parse::ENTRY.len() {
                let r = suiron_monitor::props::parse::call_entry(k, a);
                println!("   {:18} {:?}", suiron_monitor::props::parse::ENTRY[k], r.map_err(|p| format!("PANIC {} @ {}", p.msg, p.loc)));
            }
        }
        return;
    }
    let mut ids = HashMap::new();
    let mut ss: Rc<SubstitutionSet> = Rc::new(vec![]);
    for a in &args[2..] {
        let (l, r) = a.split_once(" = ").expect("A = B");
        let l = number(parse_term(l).unwrap(), &mut ids);
        let r = number(parse_term(r).unwrap(), &mut ids);
        println!("{:?}  ~  {:?}", l, r);
        match l.unify(&r, &ss) {
            Some(s) => { ss = s; println!("ok\n{}", format_ss(&ss)); }
            None => println!("FAIL"),
        }
    }
}
